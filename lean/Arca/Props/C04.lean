/-
C04 — a step never executes if a prerequisite failed, it is disabled or stopped first (run-loop part).

The plugin is executed only after the provider received the `starting` stage input (provider part: C12 model); the loop
hands out that input only when every required dependency is resolved (C02) and never once one of them is unresolvable.
-/
import Arca.Proofs.LoopDag
import Arca.Proofs.GateInv
import Arca.Gen.Decisions

namespace Arca.Props.C04
open Arca.Model

/-- `failed_prereq_never_provided`: once a required dependency of a stage is unresolvable, no later reaction of any
    history provides that stage's input -/
theorem failed_prereq_never_provided (P : Prepared) (fns : Fns) (ord : Order) (hord : OrdOK ord)
    (hP : P.WF) (s : LoopState) (h : LoopDagInv P s) (hist : List Event)
    (id : String) (it : Item) (hit : lookup id P.items = some it) (hk : it.kind = Kind.stage)
    (ed : String × String × Dep) (hed : ed ∈ P.dag.edges) (hto : ed.2.1 = id) (hand : ed.2.2 = Dep.and)
    (hun : statusIs s.dag ed.1 St.unres) :
    ∀ v, Action.provide it.step it.stage v ∉ (runFrom P fns ord s hist).2 :=
  Arca.Model.failed_prereq_never_provided P fns ord hord hP s h hist id it hit hk ed hed hto hand hun

/-- `no_start_without_deps`: a stage input is provided only with all required dependencies resolved -/
theorem no_start_without_deps (P : Prepared) (fns : Fns) (ord : Order) (hord : OrdOK ord) (s : LoopState) (e : Event)
    (hP : P.WF) (h : LoopDagInv P s) (step stage : String) (v : Val)
    (hp : Action.provide step stage v ∈ (react P fns ord s e).2) :
    ∃ id it, lookup id P.items = some it ∧ it.kind = Kind.stage ∧ it.step = step ∧ it.stage = stage ∧
      (∀ ed ∈ P.dag.edges, ed.2.1 = id → ed.2.2 = Dep.and → statusIs (react P fns ord s e).1.dag ed.1 St.resolved) := by
  obtain ⟨id, it, _, h1, h2, h3, h4, _, _, h7, _⟩ := provide_deps_settled P fns ord hord s e hP h step stage v hp
  exact ⟨id, it, h1, h2, h3, h4, h7⟩

/-- statuses never return to `waiting`: a failed or finished stage stays so -/
theorem status_monotone (P : Prepared) (fns : Fns) (ord : Order) (s : LoopState) (e : Event)
    (h : LoopDagInv P s) (id : String) (st : St) (hst : st ≠ St.waiting) (hs : statusIs s.dag id st) :
    statusIs (react P fns ord s e).1.dag id st :=
  react_status_mono P fns ord s e h id st hst hs

/-! ## Provider part: the gates of a plugin step over the RAW stage-input values

`Arca.Model.Gate` is the transition system of `run()` between the deployment and the start of the plugin, with the
decisions of `provideEnablingInput` / `provideCancelledInput` plugged in from the regenerated facts
(`Arca.Gen.pluginEnabledDecision`, `pluginEnabledRefusal`, `pluginStopDecision`, `pluginStopOnce`: extract/decisions.go reads
them from the source on every run).  The workflow loop validates a stage input against the bool schema but hands the raw
value on, so a literal `enabled: false` reaches the provider as the STRING "false".  What C04 needs: no value the schema
READS as false ever enables the step, a value the schema cannot read starts nothing, and a value it reads as true fires the
stop.  Since /repo d308cbb the provider reads `enabled` through the bool schema itself (`boolRead`; `arcadrv gate` compares
that table with the real `schema.NewBoolSchema().Unserialize` on every run). -/

open Arca.Model.Gate Arca.Gen

/-- the real provider: decisions as extracted from the current source -/
def pluginCfg : Cfg :=
  { enabledDec := pluginEnabledDecision
    enabledRefuse := pluginEnabledRefusal
    stopDec := pluginStopDecision
    stopOnce := pluginStopOnce }

/-- the extractor understood every decision (otherwise the theorems below would be about `unknown`) -/
theorem decisions_recognised :
    pluginEnabledDecision.known = true ∧ pluginEnabledRefusal.known = true ∧ foreachEnabledDecision.known = true ∧
    foreachEnabledRefusal.known = true ∧ pluginStopDecision.known = true := by
  decide

/-- both providers take the same decisions on `enabled` -/
theorem foreach_decides_like_plugin :
    ∀ i, foreachEnabledDecision.eval i = pluginEnabledDecision.eval i ∧
         foreachEnabledRefusal.eval i = pluginEnabledRefusal.eval i := by
  intro i
  simp [foreachEnabledDecision, pluginEnabledDecision, foreachEnabledRefusal, pluginEnabledRefusal]

/-- `enabled := true; if input["enabled"] != nil { enabled = <bool schema reading> }`: exactly nil and the values the bool
    schema reads as true enable -/
theorem enabled_iff_nil_or_reads_true (i : Option Val) :
    pluginEnabledDecision.eval i = true ↔ (i = none ∨ i = some .null ∨ ∃ v, i = some v ∧ boolRead v = some true) := by
  simp only [pluginEnabledDecision, FieldCond.eval]
  rcases i with _ | v
  · simp [FieldCond.rawNil, FieldCond.rawRead]
  · cases v <;> simp [FieldCond.rawNil, FieldCond.rawRead, boolRead]

theorem foreach_enabled_iff_nil_or_reads_true (i : Option Val) :
    foreachEnabledDecision.eval i = true ↔ (i = none ∨ i = some .null ∨ ∃ v, i = some v ∧ boolRead v = some true) := by
  rw [(foreach_decides_like_plugin i).1]
  exact enabled_iff_nil_or_reads_true i

/-- the provider refuses exactly the present values the bool schema rejects -/
theorem refused_iff_unreadable (i : Option Val) :
    pluginEnabledRefusal.eval i = true ↔ ∃ v, i = some v ∧ v ≠ .null ∧ boolRead v = none := by
  simp only [pluginEnabledRefusal, FieldCond.eval]
  rcases i with _ | v
  · simp [FieldCond.rawNil, FieldCond.rawRead]
  · cases v <;> simp [FieldCond.rawNil, FieldCond.rawRead, boolRead]

/-- **what C04 needs of the enabled gate**: a value the bool schema reads as false (`false`, "false", "no", "off", 0, "0",
    ...) never enables the step -/
theorem false_reading_never_enables (v : Val) (h : boolRead v = some false) :
    pluginEnabledDecision.eval (some v) = false ∧ foreachEnabledDecision.eval (some v) = false := by
  have hnn : v ≠ .null := by intro hv; subst hv; simp [boolRead] at h
  have hp : pluginEnabledDecision.eval (some v) = false := by
    cases hb : pluginEnabledDecision.eval (some v) with
    | false => rfl
    | true =>
      have := (enabled_iff_nil_or_reads_true (some v)).1 hb
      rcases this with h1 | h1 | ⟨w, h1, h2⟩
      · simp at h1
      · injection h1 with h1; exact absurd h1 hnn
      · injection h1 with h1; subst h1; rw [h] at h2; simp at h2
  exact ⟨hp, by rw [(foreach_decides_like_plugin (some v)).1]; exact hp⟩

/-- the repair of d308cbb: a value the schema reads as true (the literal `enabled: true` arrives as the string "true") enables -/
theorem true_reading_enables (v : Val) (h : boolRead v = some true) : pluginEnabledDecision.eval (some v) = true :=
  (enabled_iff_nil_or_reads_true (some v)).2 (Or.inr (Or.inr ⟨v, rfl, h⟩))

/-- a value the schema cannot read neither enables nor disables: the input is refused (an error, nothing is sent) -/
theorem unreadable_is_refused (v : Val) (h : boolRead v = none) (hn : v ≠ .null) :
    pluginEnabledRefusal.eval (some v) = true ∧ pluginEnabledDecision.eval (some v) = false ∧
    ∀ s, step pluginCfg s (.provideEnabling (some v)) = none := by
  have hr : pluginEnabledRefusal.eval (some v) = true := (refused_iff_unreadable (some v)).2 ⟨v, rfl, hn, h⟩
  refine ⟨hr, ?_, ?_⟩
  · cases hb : pluginEnabledDecision.eval (some v) with
    | false => rfl
    | true =>
      have := (enabled_iff_nil_or_reads_true (some v)).1 hb
      rcases this with h1 | h1 | ⟨w, h1, h2⟩
      · simp at h1
      · injection h1 with h1; exact absurd h1 hn
      · injection h1 with h1; subst h1; rw [h] at h2; simp at h2
  · intro s
    simp only [step, pluginCfg, hr]
    split <;> simp

/-- `stop_if`: the stop is applied iff the value is present and is not the Go bool `false` -/
theorem stop_iff_present_and_not_false (i : Option Val) :
    pluginStopDecision.eval i = true ↔ ¬ (i = none ∨ i = some .null ∨ i = some (.bool false)) := by
  simp only [pluginStopDecision, FieldCond.eval]
  rcases i with _ | v
  · simp [FieldCond.rawNil, FieldCond.rawEqBool]
  · cases v <;> simp [FieldCond.rawNil, FieldCond.rawEqBool]

/-- **what C04 needs of the stop gate**: a value the schema reads as true fires the stop -/
theorem true_reading_stop_fires (v : Val) (h : boolRead v = some true) : pluginStopDecision.eval (some v) = true := by
  apply (stop_iff_present_and_not_false (some v)).2
  intro hx
  rcases hx with hx | hx | hx
  · simp at hx
  · injection hx with hx; subst hx; simp [boolRead] at h
  · injection hx with hx; subst hx; simp [boolRead] at h

/-- the stop condition is accepted once (c87121e): every later stop input is refused and changes nothing -/
theorem stop_input_accepted_once (s : GState) (i : Option Val) (h : s.stopAvail = true) :
    step pluginCfg s (.provideCancelled i) = none := by
  simp [step, pluginCfg, pluginStopOnce, h]

/-- The decision the provider took before d308cbb, `input["enabled"] == nil || input["enabled"] == true` on the raw value,
    kept as the reason for that repair (kernel-checked witness): the literal `enabled: true` reaches the provider as the
    string "true", which the schema reads as true and which that decision turned into DISABLED. -/
def oldEnabledDecision : FieldCond := .or .isNil (.eqBool true)

theorem old_decision_reads_true_yet_disabled :
    ∃ v, boolRead v = some true ∧ oldEnabledDecision.eval (some v) = false ∧ pluginEnabledDecision.eval (some v) = true :=
  ⟨.str "true", by decide, by decide, by decide⟩

/-- Still true of the current code, and allowed by C04 (a stopped step does not execute): `stop_if` is declared with the
    `any` schema, "a non-false value cancels the step", and the literal `stop_if: false` reaches the provider as the TEXT
    "false", which is a non-false value although the bool schema reads it as false. -/
theorem reads_false_yet_stopped_counterexample :
    ∃ v, boolRead v = some false ∧ pluginStopDecision.eval (some v) = true :=
  ⟨.str "false", by decide, by decide⟩

/-- `executes_only_if_enabled`: under every interleaving of the callers with `run()`, the plugin is handed its input only
    after an enabling input was accepted whose raw value is nil or reads true under the bool schema -/
theorem executes_only_if_enabled (s : GState) (h : Reach pluginCfg s) (he : s.pc = .executing) :
    ∃ i, s.given = some i ∧ (i = none ∨ i = some .null ∨ ∃ v, i = some v ∧ boolRead v = some true) := by
  obtain ⟨i, hg, hev⟩ := (inv_reach pluginCfg s h).pass (by simp [he, passed])
  exact ⟨i, hg, (enabled_iff_nil_or_reads_true i).1 hev⟩

/-- `false_reading_never_executes`: once an enabling input whose value reads false was accepted, `run()` never gets past the
    enable gate: it neither announces the starting stage by that path nor executes the plugin -/
theorem false_reading_never_executes (s : GState) (h : Reach pluginCfg s) (v : Val)
    (hg : s.given = some (some v)) (hr : boolRead v = some false) : passed s.pc = false ∧ s.pc ≠ .executing := by
  have hinv := inv_reach pluginCfg s h
  have hnp : passed s.pc = false := by
    cases hp : passed s.pc with
    | false => rfl
    | true =>
      obtain ⟨i, hg', hev⟩ := hinv.pass hp
      rw [hg] at hg'
      injection hg' with hg'
      subst hg'
      have := (false_reading_never_enables v hr).1
      simp [pluginCfg] at hev
      rw [this] at hev
      exact absurd hev (by decide)
  refine ⟨hnp, ?_⟩
  intro he
  simp [he, passed] at hnp

/-- `disabled_reports_disabled`: the disabled end (transitionToDisabled: `disabled.output`) is reached only on an enabling
    input on which the decision is false, and such an input never leads past the gate -/
theorem disabled_reports_disabled (s : GState) (h : Reach pluginCfg s) (hd : s.pc = .disabledEnd) :
    ∃ i, s.given = some i ∧ pluginEnabledDecision.eval i = false :=
  (inv_reach pluginCfg s h).dis hd

/-- `stop_before_start_partial`: a firing stop (or a close) processed while `run()` is still waiting for its deploy input or deploying, or parked in the
    `select` of `enableStage` / `startStage`, ends the step: the plugin is never executed, and if the starting stage had not
    been announced by then it never is.  (Partial: the full clause - "processed before the starting stage was announced" -
    is false for the current code, see `stop_before_start_counterexample`.) -/
theorem stop_before_start_partial (s : GState) (h : Reach pluginCfg s) (he : s.stoppedEarly = true) :
    s.pc ≠ .executing ∧ (s.stoppedBeforeAnnounce = true → s.announced = false) := by
  have hinv := inv_reach pluginCfg s h
  refine ⟨?_, hinv.sea he⟩
  intro hx
  have := (hinv.early he).2
  simp [hx] at this

/-- the same for any decisions: the closure argument does not depend on what the decisions are -/
theorem stop_before_start_partial_any (c : Cfg) (s : GState) (h : Reach c s) (he : s.stoppedEarly = true) :
    s.pc ≠ .executing := by
  intro hx
  have := ((inv_reach c s h).early he).2
  simp [hx] at this

/-- **F16** (design finding, unchanged code): a stop that is processed BEFORE the step announces its starting stage does
    not always prevent the execution.  Witness: both inputs are already there when the deployment finishes; the stop arrives
    between the context check of `startPlugin` and the `select` of `enableStage`; the `select` finds both cases ready and
    takes the enabled value; the non-blocking receive in `startStage` takes the run input without looking at the context. -/
theorem stop_before_start_counterexample :
    ∃ acts s, exec pluginCfg Gate.init acts = some s ∧ s.stoppedBeforeAnnounce = true ∧ s.pc = .executing :=
  ⟨[.provideDeploy, .recvDeploy, .provideEnabling (some (.str "yes")), .provideStarting, .deployOk,
    .provideCancelled (some (.bool true)), .evalEnableSelect false, .recvRunNonBlocking], _, rfl, by decide, by decide⟩

/-- non-vacuity: the gate lets an enabled, unstopped step through (also on the literal text "true"), disables on the string
    "false", refuses "maybe", closes on a stop and ignores a second stop input -/
example : (exec pluginCfg Gate.init [.provideDeploy, .recvDeploy, .deployOk, .evalEnableSelect false, .provideEnabling none, .recvRunNonBlocking,
    .evalStartSelect false, .provideStarting]).map (·.pc) = some .executing := by decide
example : (exec pluginCfg Gate.init [.provideDeploy, .recvDeploy, .deployOk, .evalEnableSelect false, .provideEnabling (some (.str "true")),
    .recvRunNonBlocking, .evalStartSelect false, .provideStarting]).map (·.pc) = some .executing := by decide
example : (exec pluginCfg Gate.init [.provideDeploy, .recvDeploy, .deployOk, .evalEnableSelect false, .provideEnabling (some (.str "false"))]).map (·.pc)
    = some .disabledEnd := by decide
example : step pluginCfg Gate.init (.provideEnabling (some (.str "maybe"))) = none := by decide
example : (exec pluginCfg Gate.init [.provideDeploy, .recvDeploy, .deployOk, .evalEnableSelect false, .provideCancelled (some (.str "yes")),
    .provideEnabling (some (.bool true)), .provideStarting]).map (·.pc) = some .closedEnd := by decide
example : (exec pluginCfg Gate.init [.provideCancelled none, .provideCancelled (some (.bool true))]).map (·.pc) = none := by decide

end Arca.Props.C04
