/-
C04 — a step never executes if a prerequisite failed, it is disabled or stopped first (run-loop part).

The plugin is executed only after the provider received the `starting` stage input (provider part: C12 model); the loop
hands out that input only when every required dependency is resolved (C02) and never once one of them is unresolvable.
-/
import Arca.Proofs.LoopDag

namespace Arca.Props.C04
open Arca.Model

/-- `failed_prereq_never_provided`: once a required dependency of a stage is unresolvable, no later reaction of any
    history provides that stage's input -/
theorem failed_prereq_never_provided (P : Prepared) (fns : Fns) (ord : Order) (hord : OrdOK ord)
    (hP : P.WF) (s : LoopState) (h : LoopDagInv P s) (hist : List Event)
    (id : String) (it : Item) (hit : lookup id P.items = some it) (hk : it.kind = Kind.stage)
    (ed : String × String × Dep) (hed : ed ∈ P.dag.edges) (hto : ed.2.1 = id) (hand : ed.2.2 = Dep.and)
    (hun : statusIs s.dag ed.1 St.unres) :
    ∀ v, Action.provide it.step it.stage v ∉ (runFrom P fns ord s hist).2 :=
  Arca.Model.failed_prereq_never_provided P fns ord hord hP s h hist id it hit hk ed hed hto hand hun

/-- `no_start_without_deps`: a stage input is provided only with all required dependencies resolved -/
theorem no_start_without_deps (P : Prepared) (fns : Fns) (ord : Order) (hord : OrdOK ord) (s : LoopState) (e : Event)
    (hP : P.WF) (h : LoopDagInv P s) (step stage : String) (v : Val)
    (hp : Action.provide step stage v ∈ (react P fns ord s e).2) :
    ∃ id it, lookup id P.items = some it ∧ it.kind = Kind.stage ∧ it.step = step ∧ it.stage = stage ∧
      (∀ ed ∈ P.dag.edges, ed.2.1 = id → ed.2.2 = Dep.and → statusIs (react P fns ord s e).1.dag ed.1 St.resolved) := by
  obtain ⟨id, it, _, h1, h2, h3, h4, _, _, h7, _⟩ := provide_deps_settled P fns ord hord s e hP h step stage v hp
  exact ⟨id, it, h1, h2, h3, h4, h7⟩

/-- statuses never return to `waiting`: a failed or finished stage stays so -/
theorem status_monotone (P : Prepared) (fns : Fns) (ord : Order) (s : LoopState) (e : Event)
    (h : LoopDagInv P s) (id : String) (st : St) (hst : st ≠ St.waiting) (hs : statusIs s.dag id st) :
    statusIs (react P fns ord s e).1.dag id st :=
  react_status_mono P fns ord s e h id st hst hs

end Arca.Props.C04
