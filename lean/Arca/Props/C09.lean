/-
C09 — the result does not depend on how fast goroutines are scheduled; in particular the engine reports that no step
can make progress only when that is really so.

This file contains the part of C09 that concerns what a plugin step tells the fallback deadlock detector
(`workflow.go`, `checkForDeadlocks`: fires when no step counts as `starting`/`running`, nothing is ready and no output
exists on `detectorRetries + 1` consecutive polls).  Model: `Arca.Model.PluginState` — the raw `r.state` /
`r.currentStage` at the granularity of the lock regions and callbacks of `run()` and of the `provide*` handlers, what
`State()` answers, the loop-side record (`l.reportedStages`, `l.completedSteps`, written when a report is PROCESSED) and
the classification `countStates` makes since e0ccfb1 (`countsAs`).

* The RAW state is unsound for the detector (finding F10a): `raw_state_window_*` are reachable states in which it says
  `waiting_for_input` / `finished` while the step is moving; in each of them `countsAs` now says `running`.
* `detector_sound_waiting` (full strength): counted as `waiting` with the context not cancelled ⇒ parked on an empty
  channel or about to park silently (`Settled`).  With the context cancelled the step is on its way to report `closed`.
* `detector_sound_finished_partial`: counted as `finished` ⇒ nothing but the deferred closes is left — EXCEPT between the
  processing of `OnStepComplete` and the `OnStepStageFailure` notifications that follow it on every ending but the
  successful one (`detector_sound_counterexample_failure_tail`).
* `no_lost_check`: the refinement never blinds the detector — wherever it turns a raw `waiting_for_input` / `finished`
  into `running`, every run of the step to rest contains the processing of a report that re-runs the check and after
  which the refinement is no longer at work.
-/
import Arca.Proofs.PluginState

namespace Arca.Props.C09
open Arca.Model.PluginState

/-! ## prefixes of executions used by the witnesses -/

/-- `run()` up to the blocking select of deployStage (no deploy input yet) -/
def toDeployWait : List Act := [.internal, .deliver, .internal, .internal, .internal]
/-- deploy input given first, deployed, up to the lock region of enableStage (not yet executed) -/
def toEnableLock : List Act :=
  [.provideDeploy, .internal, .deliver, .internal, .internal, .internal, .deployOk, .internal]
/-- .. parked in enableStage -/
def toEnableWait : List Act := toEnableLock ++ [.internal, .deliver, .internal]
/-- .. through enableStage with `enabled = true`, up to the non-blocking receive of startStage (not yet executed) -/
def toStartTry : List Act := toEnableWait ++ [.provideEnabling true, .recv, .deliverFailure]
/-- a failed deployment up to the pending `OnStepComplete` -/
def toFailedCompletion : List Act :=
  [.provideDeploy, .internal, .deliver, .internal, .internal, .internal, .deployFail, .internal, .deliver, .internal, .internal]

/-! ## the raw state: the windows of F10a, and what the detector makes of them now -/

/-- (0) deployStage: input provided between the non-blocking `select` (default branch) and the lock region that writes
    `waiting_for_input`; `provideDeployInput` saw `running` and did not flip the state -/
theorem raw_state_window_deploy_race :
    ∃ s, execute init [.internal, .deliver, .internal, .internal, .provideDeploy, .internal] = some s ∧
      s.stage = .deploy ∧ s.state = .waiting ∧ s.deployAvail = true ∧ Quiescent s = false ∧ countsAs s = .running := by
  refine ⟨_, rfl, ?_, ?_, ?_, ?_, ?_⟩ <;> decide

/-- (i) enableStage writes `waiting_for_input` although the enabling input is already available, and then reports the
    stage change before it even looks at the channel -/
theorem raw_state_window_enabling :
    ∃ s, execute init (toEnableLock ++ [.provideEnabling true, .internal]) = some s ∧
      s.state = .waiting ∧ s.stage = .enabling ∧ s.enabledAvail = true ∧ s.pc = .eCb ∧
      Quiescent s = false ∧ countsAs s = .running := by
  refine ⟨_, rfl, ?_, ?_, ?_, ?_, ?_, ?_⟩ <;> decide

/-- (i) the same with no input yet: the report `deploy -> enabling` is in flight (`CurrentStage() != reportedStages`) -/
theorem raw_state_window_enabling_report_in_flight :
    ∃ s, execute init (toEnableLock ++ [.internal]) = some s ∧
      s.state = .waiting ∧ s.enabledAvail = false ∧ s.pc = .eCb ∧ s.reportedStage = some .deploy ∧
      reportedState s = .waiting ∧ countsAs s = .running := by
  refine ⟨_, rfl, ?_, ?_, ?_, ?_, ?_, ?_⟩ <;> decide

/-- (ii) enabling input provided while `run()` is parked in enableStage: `provideEnablingInput` leaves the state alone -/
theorem raw_state_window_enabling_provided_while_parked :
    ∃ s, execute init (toEnableWait ++ [.provideEnabling true]) = some s ∧
      s.state = .waiting ∧ s.pc = .eWait ∧ s.enabledOcc = true ∧ Quiescent s = false ∧ countsAs s = .running := by
  refine ⟨_, rfl, ?_, ?_, ?_, ?_, ?_⟩ <;> decide

/-- (iii) startStage found no run input in its non-blocking receive, the input arrives, and
    `transitionStageWithOutput(starting, waiting_for_input)` writes `waiting_for_input` afterwards -/
theorem raw_state_window_starting :
    ∃ s, execute init (toStartTry ++ [.internal, .provideStarting, .internal]) = some s ∧
      s.state = .waiting ∧ s.stage = .starting ∧ s.runAvail = true ∧ s.pc = .transCb .starting ∧
      Quiescent s = false ∧ countsAs s = .running := by
  refine ⟨_, rfl, ?_, ?_, ?_, ?_, ?_, ?_⟩ <;> decide

/-- (ii) run input provided while `run()` is parked in startStage: `provideStartingInput` leaves the state alone -/
theorem raw_state_window_starting_provided_while_parked :
    ∃ s, execute init (toStartTry ++ [.internal, .internal, .deliver, .internal, .internal, .provideStarting]) = some s ∧
      s.state = .waiting ∧ s.pc = .sWait ∧ s.runOcc = true ∧ Quiescent s = false ∧ countsAs s = .running := by
  refine ⟨_, rfl, ?_, ?_, ?_, ?_, ?_⟩ <;> decide

/-- (iv) completeStep writes `finished` before `OnStepComplete` is processed -/
theorem raw_state_window_completion_in_flight :
    ∃ s, execute init toFailedCompletion = some s ∧
      s.state = .finished ∧ s.pc = .complCb .deployFailed ∧ s.completed = false ∧ Quiescent s = false ∧
      countsAs s = .running := by
  refine ⟨_, rfl, ?_, ?_, ?_, ?_, ?_⟩ <;> decide

/-- so the statement about the RAW state — `r.state ∈ {waiting, finished}` ⇒ quiescent — is false -/
theorem raw_state_unsound :
    ¬ (∀ s, Reachable s → (s.state = .waiting ∨ s.state = .finished) → Quiescent s = true) := by
  intro h
  obtain ⟨s, hex, hw, _, _, _, hq, _⟩ := raw_state_window_enabling
  have := h s (execute_reachable Reachable.init _ s hex) (Or.inl hw)
  rw [hq] at this
  cases this

/-- .. and the windows `InWindow` are all there is: outside them the raw state is sound -/
theorem raw_state_windows_exhaustive (s : St) (hr : Reachable s) (hw : s.state = .waiting ∨ s.state = .finished)
    (hout : InWindow s = false) : Quiescent s = true := by
  rcases Arca.Proofs.PluginState.raw_classified s (Arca.Proofs.PluginState.reachable_inv s hr) hw with h | h
  · exact h
  · rw [hout] at h
    cases h

/-- raw `waiting_for_input` in stage `deploy` with the input provided: only the deploy race, or being closed -/
theorem raw_deploy_wait_partial (s : St) (hr : Reachable s) (hst : s.stage = .deploy) (hw : s.state = .waiting)
    (ha : s.deployAvail = true) : inDeployRace s = true ∨ s.pc = .failedLock .closed :=
  Arca.Proofs.PluginState.deploy_waiting_provided s (Arca.Proofs.PluginState.reachable_inv s hr) hst hw ha

/-! ## the detector's view since e0ccfb1 -/

/-- `State()` never answers `waiting_for_input` in stage `deploy` once the deploy input has been provided; and a step
    COUNTED as waiting in stage `deploy` (context not cancelled) is parked on the empty channel. -/
theorem deploy_wait_is_sound (s : St) (hr : Reachable s) (hst : s.stage = .deploy) :
    (reportedState s = .waiting → s.deployAvail = false) ∧
    (countsAs s = .waiting → s.ctxDone = false → Quiescent s = true ∧ s.deployAvail = false) := by
  refine ⟨?_, ?_⟩
  · intro h
    cases hd : s.deployAvail with
    | false => rfl
    | true =>
      simp only [reportedState, currentStageInputAvailable, hst, hd] at h
      split at h
      · cases h
      · rename_i hn
        exact absurd ⟨h, trivial⟩ hn
  · intro hc hctx
    exact Arca.Proofs.PluginState.deploy_counts_waiting s (Arca.Proofs.PluginState.reachable_inv s hr) hst hc hctx

/-- FULL STRENGTH for `waiting`: a step counted as waiting whose context is not cancelled is parked on an empty channel
    with no report in flight (`Quiescent`), or is returning from the handler that has just processed its report and
    will park without calling the handler again or finding an input (`Settled`). -/
theorem detector_sound_waiting (s : St) (hr : Reachable s) (hc : countsAs s = .waiting) (hctx : s.ctxDone = false) :
    Settled s = true :=
  Arca.Proofs.PluginState.counts_waiting_settled s (Arca.Proofs.PluginState.reachable_inv s hr) hc hctx

/-- what `Settled` means operationally: the only moves left are silent local ones (no handler call, no receive, no
    answer of the deployer or plugin awaited), and they stay settled until the step is quiescent -/
theorem settled_is_silent (s s' : St) (a : Act) (hs : Settled s = true) (ha : a ∈ progressActs)
    (hstep : step s a = some s') : a = .internal ∧ Settled s' = true :=
  Arca.Proofs.PluginState.settled_step s s' a hs ha hstep

/-- the closing window, exactly: counted as waiting with the context cancelled (stop condition or Close arrived, `run()`
    has not yet taken its `ctx.Done()` branch) — the step is NOT at rest … -/
theorem detector_sound_counterexample_cancel_in_flight :
    ∃ s, execute init (toEnableWait ++ [.cancel]) = some s ∧
      countsAs s = .waiting ∧ s.ctxDone = true ∧ Quiescent s = false ∧ Settled s = false := by
  refine ⟨_, rfl, ?_, ?_, ?_, ?_⟩ <;> decide

/-- … but it owes a checking report: it will go through `closedEarly` and report its completion -/
theorem closing_window_owes_completion (s : St) (hr : Reachable s) (hc : countsAs s = .waiting) (hctx : s.ctxDone = true) :
    owesCheck s = true ∧ Quiescent s = false := by
  have hi := Arca.Proofs.PluginState.reachable_inv s hr
  have ho := Arca.Proofs.PluginState.counts_waiting_ctx_owes s hi hc hctx
  exact ⟨ho, Arca.Proofs.PluginState.owes_not_quiescent s hi ho⟩

/-- `finished`: sound except in the failure tail -/
theorem detector_sound_finished_partial (s : St) (hr : Reachable s) (hc : countsAs s = .finished)
    (hft : inFailureTail s = false) : Settled s = true :=
  Arca.Proofs.PluginState.counts_finished_settled s (Arca.Proofs.PluginState.reachable_inv s hr) hc hft

/-- STILL FALSE at full strength: once `OnStepComplete` has been processed the step counts as finished, but on every
    ending except the successful one `markStageFailures` / `markNotClosable` still have `OnStepStageFailure`
    notifications to deliver (here: after a failed deployment, the failures of enabling … outputs, closed). -/
theorem detector_sound_counterexample_failure_tail :
    ∃ s, execute init (toFailedCompletion ++ [.deliver]) = some s ∧
      countsAs s = .finished ∧ s.ctxDone = false ∧ inFailureTail s = true ∧ Quiescent s = false ∧ Settled s = false ∧
      (∃ s1 s2, step s .internal = some s1 ∧ step s1 .deliverFailure = some s2) := by
  refine ⟨_, rfl, ?_, ?_, ?_, ?_, ?_, _, _, rfl, rfl⟩ <;> decide

/-- the combined statement -/
theorem detector_sound_partial (s : St) (hr : Reachable s) (hc : countsAs s = .waiting ∨ countsAs s = .finished)
    (hctx : s.ctxDone = false) (hft : inFailureTail s = false) : Settled s = true := by
  rcases hc with hc | hc
  · exact detector_sound_waiting s hr hc hctx
  · exact detector_sound_finished_partial s hr hc hft

/-- the full statement (only the context exception) is false, because of the failure tail -/
theorem detector_sound_counterexample :
    ¬ (∀ s, Reachable s → (countsAs s = .waiting ∨ countsAs s = .finished) → s.ctxDone = false → Settled s = true) := by
  intro h
  obtain ⟨s, hex, hc, hctx, _, _, hs, _⟩ := detector_sound_counterexample_failure_tail
  have := h s (execute_reachable Reachable.init _ s hex) (Or.inr hc) hctx
  rw [hs] at this
  cases this

/-! ## the refinement does not blind the detector -/

/-- per program point: wherever the refinement is at work, `run()` owes a report whose processing runs the check … -/
theorem refinement_owes_check (s : St) (hr : Reachable s) (href : Refined s = true) : owesCheck s = true :=
  Arca.Proofs.PluginState.refined_owes s (Arca.Proofs.PluginState.reachable_inv s hr) href

/-- … a step that owes one is not at rest, and every action (of the step, the plugin side or the engine) either IS the
    processing of such a report — an `OnStageChange` with a previous stage or the `OnStepComplete`, never only an
    `OnStepStageFailure` — or leaves it owed. -/
theorem owed_check_is_delivered_or_kept (s s' : St) (a : Act) (hr : Reachable s) (ho : owesCheck s = true)
    (hstep : step s a = some s') :
    Quiescent s = false ∧ ((a = .deliver ∧ checkingReportPending s = true) ∨ owesCheck s' = true) :=
  ⟨Arca.Proofs.PluginState.owes_not_quiescent s (Arca.Proofs.PluginState.reachable_inv s hr) ho,
   Arca.Proofs.PluginState.owes_step s s' a (Arca.Proofs.PluginState.reachable_inv s hr) ho hstep⟩

/-- over schedules: from a state that owes a check, every run to rest — whatever the engine and the plugin side do in
    between — contains the processing of a checking report after which the refinement is no longer at work -/
theorem owed_check_runs : ∀ (acts : List Act) (s t : St), Reachable s → owesCheck s = true → execute s acts = some t →
    Quiescent t = true → hasFaithfulCheck s acts = true := by
  intro acts
  induction acts with
  | nil =>
    intro s t hr ho hex hq
    simp [execute] at hex
    subst hex
    have := Arca.Proofs.PluginState.owes_not_quiescent s (Arca.Proofs.PluginState.reachable_inv s hr) ho
    rw [hq] at this
    cases this
  | cons a rest ih =>
    intro s t hr ho hex hq
    simp only [execute] at hex
    cases hstep : step s a with
    | none => simp [hstep] at hex
    | some s' =>
      simp only [hstep] at hex
      have hr' : Reachable s' := Reachable.step a hr hstep
      simp only [hasFaithfulCheck, hstep, Bool.or_eq_true, Bool.and_eq_true]
      rcases Arca.Proofs.PluginState.owes_step s s' a (Arca.Proofs.PluginState.reachable_inv s hr) ho hstep with ⟨ha, hp⟩ | ho'
      · cases href : Refined s' with
        | false => left; subst ha; simp [hp]
        | true => right; exact ih s' t hr' (refinement_owes_check s' hr' href) hex hq
      · right; exact ih s' t hr' ho' hex hq

/-- `no_lost_check`: whenever `countsAs` turns a raw `waiting_for_input` / `finished` into `running`, every run of the
    step to rest contains a check that sees the step as it is -/
theorem no_lost_check (s t : St) (acts : List Act) (hr : Reachable s) (href : Refined s = true)
    (hex : execute s acts = some t) (hq : Quiescent t = true) : hasFaithfulCheck s acts = true :=
  owed_check_runs acts s t hr (refinement_owes_check s hr href) hex hq

/-! ## why a short window cannot trigger the detector -/

/-- `checkForDeadlocks(retries)` reports "no more possible steps" only if `retries + 1` consecutive polls ALL saw no
    `starting`/`running` step — for the retry count read from the source (3): four polls. -/
theorem detector_needs_quiescence_for_three_polls (polls : List (List RState))
    (h : detectorFires Arca.Gen.detectorRetries polls = true) :
    (polls.take (Arca.Gen.detectorRetries + 1)).length = Arca.Gen.detectorRetries + 1 ∧
    (polls.take (Arca.Gen.detectorRetries + 1)).all idle = true :=
  Arca.Proofs.PluginState.fires_take _ polls h

/-- a single poll among them that sees a `starting` or `running` step stops the detector -/
theorem one_active_poll_stops_detector (polls : List (List RState)) (i : Nat) (p : List RState)
    (hi : i ≤ Arca.Gen.detectorRetries) (hp : polls[i]? = some p) (hbusy : idle p = false) :
    detectorFires Arca.Gen.detectorRetries polls = false :=
  Arca.Proofs.PluginState.busy_poll_stops _ polls i p hi hp hbusy

/-- logical time: the polls happen at `t0, t0 + d, .., t0 + retries * d`; a window `[a, b)` during which a step wrongly
    looks idle covers all of them only if it is longer than `retries * d` (3 × 10 ms for the current constants) -/
theorem short_window_cannot_trigger (t0 d a b : Nat) (hshort : b ≤ a + Arca.Gen.detectorRetries * d) :
    ¬ (∀ i, i ≤ Arca.Gen.detectorRetries → a ≤ t0 + i * d ∧ t0 + i * d < b) := by
  intro h
  have h0 := h 0 (Nat.zero_le _)
  have hr := h Arca.Gen.detectorRetries (Nat.le_refl _)
  simp only [Nat.zero_mul, Nat.add_zero] at h0
  omega

/-! ## non-vacuity -/

/-- a step counted as waiting that is quiescent (parked on the empty deploy channel, report processed) -/
example : (execute init toDeployWait).map (fun s => (s.state, countsAs s, Quiescent s, Settled s)) =
    some (.waiting, .waiting, true, true) := by decide

/-- a step counted as waiting that is settled but not yet parked: inside / returning from the handler of
    `OnStageChange(deploy -> enabling)`, where the first poll runs -/
example : (execute init (toEnableLock ++ [.internal, .deliver])).map
    (fun s => (s.pc, countsAs s, Quiescent s, Settled s, Refined s)) = some (.eCbRet, .waiting, false, true, false) := by decide

/-- the refinement is at work in a reachable state, a check is owed … -/
example : (execute init (toEnableLock ++ [.provideEnabling true, .internal])).map (fun s => (Refined s, owesCheck s)) =
    some (true, true) := by decide

/-- … and the run from there to rest (the step parks waiting for its run input) contains a faithful check: the processing
    of `OnStageChange(enabling -> starting)` -/
example :
    (match execute init (toEnableLock ++ [.provideEnabling true, .internal]) with
     | some s =>
       let acts : List Act := [.deliver, .internal, .recv, .deliverFailure, .internal, .internal, .deliver, .internal, .internal]
       ((execute s acts).map Quiescent, hasFaithfulCheck s acts)
     | none => (none, false)) = (some true, true) := by decide

/-- the step does get through to `done`; there `finished` is counted and is sound -/
example : (execute init (toStartTry ++ [.internal, .internal, .deliver, .internal, .internal, .provideStarting, .recv, .internal,
    .startOk, .internal, .deliver, .internal, .resultOk, .internal, .deliver, .internal, .internal, .deliver, .internal,
    .internal])).map (fun s => (s.pc, s.state, s.stage, countsAs s, Quiescent s)) =
    some (.done, .finished, .outputs, .finished, true) := by decide

/-- the detector does fire on four idle polls and not on three -/
example : detectorFires Arca.Gen.detectorRetries [[.waiting], [.waiting, .finished], [.finished], [.waiting]] = true := by decide
example : detectorFires Arca.Gen.detectorRetries [[.waiting], [.waiting], [.waiting]] = false := by decide
example : detectorFires Arca.Gen.detectorRetries [[.waiting], [.waiting], [.running], [.waiting], [.waiting]] = false := by decide

/-- a window of 31 ms can cover the four polls, one of 30 ms cannot -/
example : ∀ i, i ≤ Arca.Gen.detectorRetries → 0 ≤ 0 + i * 10 ∧ 0 + i * 10 < 31 := by decide

end Arca.Props.C09
