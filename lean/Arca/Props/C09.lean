/-
C09 — the result does not depend on how fast goroutines are scheduled; in particular the engine reports that no step
can make progress only when that is really so.

This file contains the part of C09 that concerns what a plugin step tells the fallback deadlock detector
(`workflow.go`, `checkForDeadlocks`: fires when no step counts as `starting`/`running`, nothing is ready and no output
exists on `detectorRetries + 1` consecutive polls).  Model: `Arca.Model.PluginState` — the raw `r.state` /
`r.currentStage` at the granularity of the lock regions and callbacks of `run()` and of the `provide*` handlers, what
`State()` answers (e0ccfb1: input of the current stage provided ⇒ running; be7655c: context cancelled ⇒ running), the
loop-side record (`l.reportedStages`, `l.completedSteps`, `l.finishedStages`, the stages settled by
`markRemainingStagesUnresolvable`; all written when a report is PROCESSED) and the classification `countStates` makes
(`countsAs`).  The model is parametrised by `marks` = "the loop marks the remaining stages unresolvable when it
processes the completion" (the F11 repair); theorems that do not mention a value of `marks` hold for both.

* The RAW state is unsound for the detector (finding F10a): `raw_state_window_*` are reachable states in which it says
  `waiting_for_input` / `finished` while the step is moving; in each of them `countsAs` now says `running`.
* `detector_sound_waiting` (full strength, no hypothesis): counted as `waiting` ⇒ the context is not cancelled and the
  step is parked on an empty channel or about to park silently (`Settled`).
* `detector_sound_finished` (full strength for `marks = true`): counted as `finished` ⇒ `Harmless`: every remaining
  action of the step is a silent local move or an `OnStepStageFailure` about a stage the loop has already settled, and
  none of them changes the loop-side record (`harmless_is_inert`).  Without the marking this is false
  (`detector_sound_counterexample_failure_tail`, `marks = false`).
* `no_lost_check`: the refinement never blinds the detector.
-/
import Arca.Proofs.PluginState
import Arca.Props.C09Progress
import Arca.Gen.Skel

namespace Arca.Props.C09
open Arca.Model.PluginState

/-! ## prefixes of executions used by the witnesses -/

/-- `run()` up to the blocking select of deployStage (no deploy input yet) -/
def toDeployWait : List Act := [.internal, .deliver, .internal, .internal, .internal]
/-- deploy input given first, deployed, up to the lock region of enableStage (not yet executed) -/
def toEnableLock : List Act :=
  [.provideDeploy, .internal, .deliver, .internal, .internal, .internal, .deployOk, .internal]
/-- .. parked in enableStage -/
def toEnableWait : List Act := toEnableLock ++ [.internal, .deliver, .internal]
/-- .. through enableStage with `enabled = true`, up to the non-blocking receive of startStage (not yet executed) -/
def toStartTry : List Act := toEnableWait ++ [.provideEnabling true, .recv, .deliverFailure]
/-- a failed deployment up to the pending `OnStepComplete` -/
def toFailedCompletion : List Act :=
  [.provideDeploy, .internal, .deliver, .internal, .internal, .internal, .deployFail, .internal, .deliver, .internal, .internal]

/-! ## the raw state: the windows of F10a, and what the detector makes of them now

(each for both values of `marks`) -/

/-- (0) deployStage: input provided between the non-blocking `select` (default branch) and the lock region that writes
    `waiting_for_input`; `provideDeployInput` saw `running` and did not flip the state -/
theorem raw_state_window_deploy_race (marks : Bool) :
    ∃ s, execute marks init [.internal, .deliver, .internal, .internal, .provideDeploy, .internal] = some s ∧
      s.stage = .deploy ∧ s.state = .waiting ∧ s.deployAvail = true ∧ Quiescent s = false ∧ countsAs s = .running := by
  cases marks <;> (refine ⟨_, rfl, ?_, ?_, ?_, ?_, ?_⟩ <;> decide)

/-- (i) enableStage writes `waiting_for_input` although the enabling input is already available, and then reports the
    stage change before it even looks at the channel -/
theorem raw_state_window_enabling (marks : Bool) :
    ∃ s, execute marks init (toEnableLock ++ [.provideEnabling true, .internal]) = some s ∧
      s.state = .waiting ∧ s.stage = .enabling ∧ s.enabledAvail = true ∧ s.pc = .eCb ∧
      Quiescent s = false ∧ countsAs s = .running := by
  cases marks <;> (refine ⟨_, rfl, ?_, ?_, ?_, ?_, ?_, ?_⟩ <;> decide)

/-- (i) the same with no input yet: the report `deploy -> enabling` is in flight (`CurrentStage() != reportedStages`) -/
theorem raw_state_window_enabling_report_in_flight (marks : Bool) :
    ∃ s, execute marks init (toEnableLock ++ [.internal]) = some s ∧
      s.state = .waiting ∧ s.enabledAvail = false ∧ s.pc = .eCb ∧ s.reportedStage = some .deploy ∧
      reportedState s = .waiting ∧ countsAs s = .running := by
  cases marks <;> (refine ⟨_, rfl, ?_, ?_, ?_, ?_, ?_, ?_⟩ <;> decide)

/-- (ii) enabling input provided while `run()` is parked in enableStage: `provideEnablingInput` leaves the state alone -/
theorem raw_state_window_enabling_provided_while_parked (marks : Bool) :
    ∃ s, execute marks init (toEnableWait ++ [.provideEnabling true]) = some s ∧
      s.state = .waiting ∧ s.pc = .eWait ∧ s.enabledOcc = true ∧ Quiescent s = false ∧ countsAs s = .running := by
  cases marks <;> (refine ⟨_, rfl, ?_, ?_, ?_, ?_, ?_⟩ <;> decide)

/-- (iii) startStage found no run input in its non-blocking receive, the input arrives, and
    `transitionStageWithOutput(starting, waiting_for_input)` writes `waiting_for_input` afterwards -/
theorem raw_state_window_starting (marks : Bool) :
    ∃ s, execute marks init (toStartTry ++ [.internal, .provideStarting, .internal]) = some s ∧
      s.state = .waiting ∧ s.stage = .starting ∧ s.runAvail = true ∧ s.pc = .transCb .starting ∧
      Quiescent s = false ∧ countsAs s = .running := by
  cases marks <;> (refine ⟨_, rfl, ?_, ?_, ?_, ?_, ?_, ?_⟩ <;> decide)

/-- (ii) run input provided while `run()` is parked in startStage: `provideStartingInput` leaves the state alone -/
theorem raw_state_window_starting_provided_while_parked (marks : Bool) :
    ∃ s, execute marks init (toStartTry ++ [.internal, .internal, .deliver, .internal, .internal, .provideStarting]) = some s ∧
      s.state = .waiting ∧ s.pc = .sWait ∧ s.runOcc = true ∧ Quiescent s = false ∧ countsAs s = .running := by
  cases marks <;> (refine ⟨_, rfl, ?_, ?_, ?_, ?_, ?_⟩ <;> decide)

/-- (iv) completeStep writes `finished` before `OnStepComplete` is processed -/
theorem raw_state_window_completion_in_flight (marks : Bool) :
    ∃ s, execute marks init toFailedCompletion = some s ∧
      s.state = .finished ∧ s.pc = .complCb .deployFailed ∧ s.completed = false ∧ Quiescent s = false ∧
      countsAs s = .running := by
  cases marks <;> (refine ⟨_, rfl, ?_, ?_, ?_, ?_, ?_⟩ <;> decide)

/-- (c) closing: a stop condition or Close has cancelled the context, `run()` is parked and has not yet taken its
    `ctx.Done()` branch: the raw state still says `waiting_for_input` (counted as running since be7655c) -/
theorem raw_state_window_closing (marks : Bool) :
    ∃ s, execute marks init (toEnableWait ++ [.cancel]) = some s ∧
      s.state = .waiting ∧ s.ctxDone = true ∧ s.enabledAvail = false ∧ Quiescent s = false ∧ countsAs s = .running := by
  cases marks <;> (refine ⟨_, rfl, ?_, ?_, ?_, ?_, ?_⟩ <;> decide)

/-- .. in general: raw `waiting_for_input` with the context cancelled is counted as running, the step is not at rest and
    owes the report of its completion (`closedEarly`) -/
theorem raw_state_window_closing_owes_completion (marks : Bool) (s : St) (hr : Reachable marks s) (hw : s.state = .waiting)
    (hctx : s.ctxDone = true) : countsAs s = .running ∧ owesCheck s = true ∧ Quiescent s = false := by
  have hi := Arca.Proofs.PluginState.reachable_inv marks s hr
  have h := Arca.Proofs.PluginState.raw_waiting_ctx_owes marks s hi hw hctx
  exact ⟨h.1, h.2, Arca.Proofs.PluginState.owes_not_quiescent marks s hi h.2⟩

/-- so the statement about the RAW state — `r.state ∈ {waiting, finished}` ⇒ quiescent — is false -/
theorem raw_state_unsound (marks : Bool) :
    ¬ (∀ s, Reachable marks s → (s.state = .waiting ∨ s.state = .finished) → Quiescent s = true) := by
  intro h
  obtain ⟨s, hex, hw, _, _, _, hq, _⟩ := raw_state_window_enabling marks
  have := h s (execute_reachable Reachable.init _ s hex) (Or.inl hw)
  rw [hq] at this
  cases this

/-- .. and the windows `InWindow` are all there is: outside them the raw state is sound -/
theorem raw_state_windows_exhaustive (marks : Bool) (s : St) (hr : Reachable marks s)
    (hw : s.state = .waiting ∨ s.state = .finished) (hout : InWindow s = false) : Quiescent s = true := by
  rcases Arca.Proofs.PluginState.raw_classified marks s (Arca.Proofs.PluginState.reachable_inv marks s hr) hw with h | h
  · exact h
  · rw [hout] at h
    cases h

/-- raw `waiting_for_input` in stage `deploy` with the input provided: only the deploy race, or being closed -/
theorem raw_deploy_wait_partial (marks : Bool) (s : St) (hr : Reachable marks s) (hst : s.stage = .deploy)
    (hw : s.state = .waiting) (ha : s.deployAvail = true) : inDeployRace s = true ∨ s.pc = .failedLock .closed :=
  Arca.Proofs.PluginState.deploy_waiting_provided marks s (Arca.Proofs.PluginState.reachable_inv marks s hr) hst hw ha

/-! ## the detector's view: `waiting` -/

/-- what is counted as waiting has a context that is not cancelled (be7655c) -/
theorem counted_waiting_not_cancelled (s : St) (hc : countsAs s = .waiting) : s.ctxDone = false := by
  cases hctx : s.ctxDone with
  | false => rfl
  | true =>
    cases hst : s.state <;> simp [countsAs, reportedState, hctx, hst] at hc
    all_goals (split at hc <;> simp at hc)

/-- `State()` never answers `waiting_for_input` in stage `deploy` once the deploy input has been provided; and a step
    COUNTED as waiting in stage `deploy` is parked on the empty channel, with its context not cancelled. -/
theorem deploy_wait_is_sound (marks : Bool) (s : St) (hr : Reachable marks s) (hst : s.stage = .deploy) :
    (reportedState s = .waiting → s.deployAvail = false) ∧
    (countsAs s = .waiting → Quiescent s = true ∧ s.deployAvail = false ∧ s.ctxDone = false) := by
  refine ⟨?_, ?_⟩
  · intro h
    cases hd : s.deployAvail with
    | false => rfl
    | true =>
      simp only [reportedState, currentStageInputAvailable, hst, hd] at h
      split at h
      · cases h
      · rename_i hn
        exact absurd ⟨h, Or.inl trivial⟩ hn
  · intro hc
    exact Arca.Proofs.PluginState.deploy_counts_waiting marks s (Arca.Proofs.PluginState.reachable_inv marks s hr) hst hc

/-- FULL STRENGTH, no hypothesis: a step counted as waiting is parked on an empty channel with no report in flight
    (`Quiescent`), or is returning from the handler that has just processed its report and will park without calling the
    handler again or finding an input (`Settled`); its context is not cancelled. -/
theorem detector_sound_waiting (marks : Bool) (s : St) (hr : Reachable marks s) (hc : countsAs s = .waiting) :
    Settled s = true ∧ s.ctxDone = false :=
  ⟨Arca.Proofs.PluginState.counts_waiting_settled marks s (Arca.Proofs.PluginState.reachable_inv marks s hr) hc,
   counted_waiting_not_cancelled s hc⟩

/-- what `Settled` means operationally: the only moves left are silent local ones (no handler call, no receive, no
    answer of the deployer or plugin awaited), and they stay settled until the step is quiescent -/
theorem settled_is_silent (marks : Bool) (s s' : St) (a : Act) (hs : Settled s = true) (ha : a ∈ progressActs)
    (hstep : step marks s a = some s') : a = .internal ∧ Settled s' = true :=
  Arca.Proofs.PluginState.settled_step marks s s' a hs ha hstep

/-! ## the detector's view: `finished` (depends on the F11 repair of the loop) -/

/-- whatever the loop does at completion: outside the failure tail a step counted as finished is settled -/
theorem detector_sound_finished_partial (marks : Bool) (s : St) (hr : Reachable marks s) (hc : countsAs s = .finished)
    (hft : inFailureTail s = false) : Settled s = true :=
  Arca.Proofs.PluginState.counts_finished_settled marks s (Arca.Proofs.PluginState.reachable_inv marks s hr) hc hft

/-- FULL STRENGTH with the marking: a step counted as finished is `Harmless` — settled, or in the failure tail with every
    `OnStepStageFailure` still to come being about a stage `markRemainingStagesUnresolvable` has already settled. -/
theorem detector_sound_finished (s : St) (hr : Reachable true s) (hc : countsAs s = .finished) : Harmless s = true :=
  Arca.Proofs.PluginState.counts_finished_harmless s (Arca.Proofs.PluginState.reachable_inv true s hr) hc

/-- what `Harmless` means operationally: every remaining action of the step is a silent local move or a failure
    notification (about settled stages), none of them changes the loop-side record, and the state stays harmless -/
theorem harmless_is_inert (marks : Bool) (s s' : St) (a : Act) (hh : Harmless s = true) (ha : a ∈ progressActs)
    (hstep : step marks s a = some s') :
    (a = .internal ∨ a = .deliverFailure) ∧ Harmless s' = true ∧ loopView s' = loopView s :=
  Arca.Proofs.PluginState.harmless_step marks s s' a hh ha hstep

/-- `detector_sound`, full strength for the code with both repairs: counted as waiting or finished ⇒ nothing the step
    still does can change the loop's view -/
theorem detector_sound (s : St) (hr : Reachable true s) (hc : countsAs s = .waiting ∨ countsAs s = .finished) :
    Harmless s = true := by
  rcases hc with hc | hc
  · have := (detector_sound_waiting true s hr hc).1
    simp [Harmless, this]
  · exact detector_sound_finished s hr hc

/-- WITHOUT the marking (`marks = false`, the loop before the F11 repair) this is false: once `OnStepComplete` has been
    processed the step counts as finished, but `markStageFailures` / `markNotClosable` still have `OnStepStageFailure`
    notifications to deliver for stages the loop has not settled (here: after a failed deployment). -/
theorem detector_sound_counterexample_failure_tail :
    ∃ s, execute false init (toFailedCompletion ++ [.deliver]) = some s ∧
      countsAs s = .finished ∧ s.ctxDone = false ∧ inFailureTail s = true ∧ Quiescent s = false ∧ Harmless s = false ∧
      s.tailFails = [.enabling, .disabled, .starting, .running, .outputs, .closed] ∧ s.settledStages = [] ∧
      (∃ s1 s2, step false s .internal = some s1 ∧ step false s1 .deliverFailure = some s2) := by
  refine ⟨_, rfl, ?_, ?_, ?_, ?_, ?_, ?_, ?_, _, _, rfl, rfl⟩ <;> decide

theorem detector_sound_counterexample_without_marking :
    ¬ (∀ s, Reachable false s → (countsAs s = .waiting ∨ countsAs s = .finished) → Harmless s = true) := by
  intro h
  obtain ⟨s, hex, hc, _, _, _, hh, _⟩ := detector_sound_counterexample_failure_tail
  have := h s (execute_reachable Reachable.init _ s hex) (Or.inr hc)
  rw [hh] at this
  cases this

/-- the same trace WITH the marking: the six stages are settled when the completion is processed -/
theorem failure_tail_settled_with_marking :
    ∃ s, execute true init (toFailedCompletion ++ [.deliver]) = some s ∧
      countsAs s = .finished ∧ inFailureTail s = true ∧ Harmless s = true ∧
      s.finishedStages = [.deploy, .deployFailed] ∧
      s.settledStages = [.enabling, .disabled, .starting, .running, .outputs, .crashed, .closed] := by
  refine ⟨_, rfl, ?_, ?_, ?_, ?_, ?_⟩ <;> decide

/-- The tie of `marks = true` to the source: the regenerated control skeleton of `onStageComplete` contains the call of
    `markRemainingStagesUnresolvable` (the F11 repair).  This theorem fails on a tree without that repair. -/
theorem loop_marks_remaining_stages_at_completion :
    Arca.Gen.Skel.workflow_workflow_loopState_onStageComplete.contains "call:l.markRemainingStagesUnresolvable(stepID)" = true := by
  decide

/-! ## the refinement does not blind the detector -/

/-- per program point: wherever the refinement is at work, `run()` owes a report whose processing runs the check … -/
theorem refinement_owes_check (marks : Bool) (s : St) (hr : Reachable marks s) (href : Refined s = true) :
    owesCheck s = true :=
  Arca.Proofs.PluginState.refined_owes marks s (Arca.Proofs.PluginState.reachable_inv marks s hr) href

/-- … a step that owes one is not at rest, and every action (of the step, the plugin side or the engine) either IS the
    processing of such a report — an `OnStageChange` with a previous stage or the `OnStepComplete`, never only an
    `OnStepStageFailure` — or leaves it owed. -/
theorem owed_check_is_delivered_or_kept (marks : Bool) (s s' : St) (a : Act) (hr : Reachable marks s)
    (ho : owesCheck s = true) (hstep : step marks s a = some s') :
    Quiescent s = false ∧ ((a = .deliver ∧ checkingReportPending s = true) ∨ owesCheck s' = true) :=
  ⟨Arca.Proofs.PluginState.owes_not_quiescent marks s (Arca.Proofs.PluginState.reachable_inv marks s hr) ho,
   Arca.Proofs.PluginState.owes_step marks s s' a (Arca.Proofs.PluginState.reachable_inv marks s hr) ho hstep⟩

/-- over schedules: from a state that owes a check, every run to rest — whatever the engine and the plugin side do in
    between — contains the processing of a checking report after which the refinement is no longer at work -/
theorem owed_check_runs (marks : Bool) : ∀ (acts : List Act) (s t : St), Reachable marks s → owesCheck s = true →
    execute marks s acts = some t → Quiescent t = true → hasFaithfulCheck marks s acts = true := by
  intro acts
  induction acts with
  | nil =>
    intro s t hr ho hex hq
    simp [execute] at hex
    subst hex
    have := Arca.Proofs.PluginState.owes_not_quiescent marks s (Arca.Proofs.PluginState.reachable_inv marks s hr) ho
    rw [hq] at this
    cases this
  | cons a rest ih =>
    intro s t hr ho hex hq
    simp only [execute] at hex
    cases hstep : step marks s a with
    | none => simp [hstep] at hex
    | some s' =>
      simp only [hstep] at hex
      have hr' : Reachable marks s' := Reachable.step a hr hstep
      simp only [hasFaithfulCheck, hstep, Bool.or_eq_true, Bool.and_eq_true]
      rcases Arca.Proofs.PluginState.owes_step marks s s' a (Arca.Proofs.PluginState.reachable_inv marks s hr) ho hstep
        with ⟨ha, hp⟩ | ho'
      · cases href : Refined s' with
        | false => left; subst ha; simp [hp]
        | true => right; exact ih s' t hr' (refinement_owes_check marks s' hr' href) hex hq
      · right; exact ih s' t hr' ho' hex hq

/-- `no_lost_check`: whenever `countsAs` turns a raw `waiting_for_input` / `finished` into `running`, every run of the
    step to rest contains a check that sees the step as it is -/
theorem no_lost_check (marks : Bool) (s t : St) (acts : List Act) (hr : Reachable marks s) (href : Refined s = true)
    (hex : execute marks s acts = some t) (hq : Quiescent t = true) : hasFaithfulCheck marks s acts = true :=
  owed_check_runs marks acts s t hr (refinement_owes_check marks s hr href) hex hq

/-! ## why a short window cannot trigger the detector -/

/-- `checkForDeadlocks(retries)` reports "no more possible steps" only if `retries + 1` consecutive polls ALL saw no
    `starting`/`running` step — for the retry count read from the source (3): four polls. -/
theorem detector_needs_quiescence_for_three_polls (polls : List (List RState))
    (h : detectorFires Arca.Gen.detectorRetries polls = true) :
    (polls.take (Arca.Gen.detectorRetries + 1)).length = Arca.Gen.detectorRetries + 1 ∧
    (polls.take (Arca.Gen.detectorRetries + 1)).all idle = true :=
  Arca.Proofs.PluginState.fires_take _ polls h

/-- a single poll among them that sees a `starting` or `running` step stops the detector -/
theorem one_active_poll_stops_detector (polls : List (List RState)) (i : Nat) (p : List RState)
    (hi : i ≤ Arca.Gen.detectorRetries) (hp : polls[i]? = some p) (hbusy : idle p = false) :
    detectorFires Arca.Gen.detectorRetries polls = false :=
  Arca.Proofs.PluginState.busy_poll_stops _ polls i p hi hp hbusy

/-- logical time: the polls happen at `t0, t0 + d, .., t0 + retries * d`; a window `[a, b)` during which a step wrongly
    looks idle covers all of them only if it is longer than `retries * d` (3 × 10 ms for the current constants) -/
theorem short_window_cannot_trigger (t0 d a b : Nat) (hshort : b ≤ a + Arca.Gen.detectorRetries * d) :
    ¬ (∀ i, i ≤ Arca.Gen.detectorRetries → a ≤ t0 + i * d ∧ t0 + i * d < b) := by
  intro h
  have h0 := h 0 (Nat.zero_le _)
  have hr := h Arca.Gen.detectorRetries (Nat.le_refl _)
  simp only [Nat.zero_mul, Nat.add_zero] at h0
  omega

/-! ## non-vacuity -/

/-- a step counted as waiting that is quiescent (parked on the empty deploy channel, report processed) -/
example : (execute true init toDeployWait).map (fun s => (s.state, countsAs s, Quiescent s, Settled s)) =
    some (.waiting, .waiting, true, true) := by decide

/-- a step counted as waiting that is settled but not yet parked: inside / returning from the handler of
    `OnStageChange(deploy -> enabling)`, where the first poll runs -/
example : (execute true init (toEnableLock ++ [.internal, .deliver])).map
    (fun s => (s.pc, countsAs s, Quiescent s, Settled s, Refined s)) = some (.eCbRet, .waiting, false, true, false) := by decide

/-- the refinement is at work in a reachable state, a check is owed … -/
example : (execute true init (toEnableLock ++ [.provideEnabling true, .internal])).map (fun s => (Refined s, owesCheck s)) =
    some (true, true) := by decide

/-- … and the run from there to rest (the step parks waiting for its run input) contains a faithful check: the processing
    of `OnStageChange(enabling -> starting)` -/
example :
    (match execute true init (toEnableLock ++ [.provideEnabling true, .internal]) with
     | some s =>
       let acts : List Act := [.deliver, .internal, .recv, .deliverFailure, .internal, .internal, .deliver, .internal, .internal]
       ((execute true s acts).map Quiescent, hasFaithfulCheck true s acts)
     | none => (none, false)) = (some true, true) := by decide

/-- a cancelled step runs through `closedEarly` to its end; counted as running until its completion is processed, then
    as finished and harmless all the way -/
example : (execute true init (toEnableWait ++ [.cancel, .ctx, .internal, .deliverFailure, .internal])).map
    (fun s => (s.pc, s.state, countsAs s)) = some (.complCb .closed, .finished, .running) := by decide
example : (execute true init (toEnableWait ++ [.cancel, .ctx, .internal, .deliverFailure, .internal, .deliver])).map
    (fun s => (s.pc, countsAs s, Harmless s, s.tailFails, s.settledStages)) =
    some (.complCbRet .closed, .finished, true, [.starting, .running, .outputs],
      [.deployFailed, .enabling, .disabled, .starting, .running, .outputs, .crashed]) := by decide

/-- the step does get through to `done`; there `finished` is counted and is sound -/
example : (execute true init (toStartTry ++ [.internal, .internal, .deliver, .internal, .internal, .provideStarting, .recv, .internal,
    .startOk, .internal, .deliver, .internal, .resultOk, .internal, .deliver, .internal, .internal, .deliver, .internal,
    .internal])).map (fun s => (s.pc, s.state, s.stage, countsAs s, Quiescent s)) =
    some (.done, .finished, .outputs, .finished, true) := by decide

/-- the detector does fire on four idle polls and not on three -/
example : detectorFires Arca.Gen.detectorRetries [[.waiting], [.waiting, .finished], [.finished], [.waiting]] = true := by decide
example : detectorFires Arca.Gen.detectorRetries [[.waiting], [.waiting], [.waiting]] = false := by decide
example : detectorFires Arca.Gen.detectorRetries [[.waiting], [.waiting], [.running], [.waiting], [.waiting]] = false := by decide

/-- a window of 31 ms can cover the four polls, one of 30 ms cannot -/
example : ∀ i, i ≤ Arca.Gen.detectorRetries → 0 ≤ 0 + i * 10 ∧ 0 + i * 10 < 31 := by decide

end Arca.Props.C09
