/-
C09 — the result does not depend on how fast goroutines are scheduled; in particular the engine reports that no step
can make progress only when that is really so.

This file contains the part of C09 that concerns what a plugin step tells the fallback deadlock detector
(`workflow.go`, `checkForDeadlocks`: fires when no step is `starting`/`running`, nothing is ready and no output exists on
`detectorRetries + 1` consecutive polls).  Model: `Arca.Model.PluginState` — `r.state` / `r.currentStage` at the
granularity of the lock regions and callbacks of `run()` and of the `provide*` handlers.

`detector_sound` ("State() ∈ {waiting_for_input, finished} ⇒ the step cannot move without the engine") is FALSE for
the unchanged code (finding F10a).  Its negation is proved with explicit reachable witnesses, the positive statement
is kept for all states outside the explicitly listed windows (`detector_sound_partial`), and the polling lemma says
why a window only matters when it lasts longer than the polling span.
-/
import Arca.Proofs.PluginState

namespace Arca.Props.C09
open Arca.Model.PluginState

/-! ## prefixes of executions used by the witnesses -/

/-- `run()` up to the blocking select of deployStage (no deploy input yet) -/
def toDeployWait : List Act := [.internal, .internal, .internal, .internal]
/-- deploy input given first, deployed, up to the lock region of enableStage (not yet executed) -/
def toEnableLock : List Act := [.provideDeploy, .internal, .internal, .internal, .internal, .deployOk, .internal]
/-- .. through enableStage with `enabled = true`, up to the non-blocking receive of startStage (not yet executed) -/
def toStartTry : List Act := toEnableLock ++ [.internal, .internal, .provideEnabling true, .recv, .internal]

/-! ## the deploy stage -/

/-- What does hold: whenever the step is QUIESCENT in stage `deploy` (parked on the empty channel), the deploy input has
    not been provided; and providing it while the state is `waiting_for_input` flips the state to `running` in the
    same lock region. -/
theorem deploy_wait_is_sound (s : St) (hr : Reachable s) (hst : s.stage = .deploy) (hq : Quiescent s = true)
    (hnd : s.pc ≠ .done) : s.deployAvail = false ∧
      (s.state = .waiting → ∃ s', step s .provideDeploy = some s' ∧ s'.state = .running) := by
  have hi := Arca.Proofs.PluginState.reachable_inv s hr
  rcases Arca.Proofs.PluginState.quiescent_shape s hi hq with h | h | h | h
  · rcases s with ⟨pc, state, stage, dA, eA, rA, dO, eO, eV, rO, early, ctx⟩
    simp only at h hst
    obtain ⟨rfl, rfl, rfl⟩ := h
    subst hst
    simp [Arca.Proofs.PluginState.inv] at hi
    have hda : dA = false := by simpa using hi.2.2.symm
    subst hda
    refine ⟨rfl, ?_⟩
    intro hw
    simp only at hw
    subst hw
    exact ⟨_, rfl, rfl⟩
  · rcases s with ⟨pc, state, stage, dA, eA, rA, dO, eO, eV, rO, early, ctx⟩
    simp only at h hst
    obtain ⟨rfl, -, -⟩ := h
    subst hst
    simp [Arca.Proofs.PluginState.inv] at hi
  · rcases s with ⟨pc, state, stage, dA, eA, rA, dO, eO, eV, rO, early, ctx⟩
    simp only at h hst
    obtain ⟨rfl, -, -⟩ := h
    subst hst
    simp [Arca.Proofs.PluginState.inv] at hi
  · exact absurd h hnd

/-- The statement without "quiescent" — stage `deploy` ∧ `waiting_for_input` ⇒ input not provided — is FALSE: the input
    can arrive between the non-blocking `select` of deployStage (default branch taken) and the lock region that writes
    `waiting_for_input`; `provideDeployInput` then sees `running` and does not flip. -/
theorem deploy_wait_is_sound_counterexample :
    ∃ s, execute init [.internal, .internal, .internal, .provideDeploy, .internal] = some s ∧
      s.stage = .deploy ∧ s.state = .waiting ∧ s.deployAvail = true ∧ Quiescent s = false := by
  refine ⟨_, rfl, ?_, ?_, ?_, ?_⟩ <;> decide

/-- .. and that race is the only way: stage `deploy`, `waiting_for_input` and input provided happen together only with
    the item still in the channel or just received (two moves of `run()` from `running`), or while the step is closed. -/
theorem deploy_wait_is_sound_partial (s : St) (hr : Reachable s) (hst : s.stage = .deploy) (hw : s.state = .waiting)
    (ha : s.deployAvail = true) : inDeployRace s = true ∨ s.pc = .failedLock .closed :=
  Arca.Proofs.PluginState.deploy_waiting_provided s (Arca.Proofs.PluginState.reachable_inv s hr) hst hw ha

/-! ## `detector_sound` is false -/

/-- (i) enableStage writes `waiting_for_input` although the enabling input is already available, and then makes the
    `OnStageChange` callback before it even looks at the channel -/
theorem detector_sound_counterexample_enabling :
    ∃ s, execute init (toEnableLock ++ [.provideEnabling true, .internal]) = some s ∧
      s.state = .waiting ∧ s.stage = .enabling ∧ s.enabledAvail = true ∧ s.enabledOcc = true ∧ s.pc = .eCb ∧
      Quiescent s = false := by
  refine ⟨_, rfl, ?_, ?_, ?_, ?_, ?_, ?_⟩ <;> decide

/-- (ii) enabling input provided while `run()` is parked in enableStage: `provideEnablingInput` leaves the state alone -/
theorem detector_sound_counterexample_enabling_provided_while_parked :
    ∃ s, execute init (toEnableLock ++ [.internal, .internal, .provideEnabling true]) = some s ∧
      s.state = .waiting ∧ s.pc = .eWait ∧ s.enabledOcc = true ∧ Quiescent s = false := by
  refine ⟨_, rfl, ?_, ?_, ?_, ?_⟩ <;> decide

/-- (iii) startStage found no run input in its non-blocking receive, the input arrives, and
    `transitionStageWithOutput(starting, waiting_for_input)` writes `waiting_for_input` afterwards -/
theorem detector_sound_counterexample_starting :
    ∃ s, execute init (toStartTry ++ [.internal, .provideStarting, .internal]) = some s ∧
      s.state = .waiting ∧ s.stage = .starting ∧ s.runAvail = true ∧ s.runOcc = true ∧ s.pc = .transCb .starting ∧
      Quiescent s = false := by
  refine ⟨_, rfl, ?_, ?_, ?_, ?_, ?_, ?_⟩ <;> decide

/-- (ii) run input provided while `run()` is parked in startStage: `provideStartingInput` leaves the state alone -/
theorem detector_sound_counterexample_starting_provided_while_parked :
    ∃ s, execute init (toStartTry ++ [.internal, .internal, .internal, .internal, .provideStarting]) = some s ∧
      s.state = .waiting ∧ s.pc = .sWait ∧ s.runOcc = true ∧ Quiescent s = false := by
  refine ⟨_, rfl, ?_, ?_, ?_, ?_⟩ <;> decide

/-- (iv) completeStep writes `finished` before `OnStepComplete` is delivered (here: after a failed deployment) -/
theorem detector_sound_counterexample_completion_in_flight :
    ∃ s, execute init [.provideDeploy, .internal, .internal, .internal, .internal, .deployFail, .internal, .internal, .internal]
        = some s ∧
      s.state = .finished ∧ s.pc = .complCb .deployFailed ∧ Quiescent s = false := by
  refine ⟨_, rfl, ?_, ?_, ?_⟩ <;> decide

/-- the full statement is false -/
theorem detector_sound_counterexample :
    ¬ (∀ s, Reachable s → (s.state = .waiting ∨ s.state = .finished) → Quiescent s = true) := by
  intro h
  obtain ⟨s, hex, hw, _, _, _, _, hq⟩ := detector_sound_counterexample_enabling
  have hr := execute_reachable Reachable.init _ s hex
  have := h s hr (Or.inl hw)
  rw [hq] at this
  cases this

/-! ## where it does hold -/

/-- `State() ∈ {waiting_for_input, finished}` implies quiescence in every reachable state OUTSIDE the windows
    `InWindow`: (0) the deploy race, (i)/(ii) from the lock region of enableStage to the lock region of the next
    transition unless parked on the empty channel, (ii)/(iii) from the callback of the transition into `starting` to the
    lock region after the receive unless parked on the empty channel, (iv) from completeStep's lock region to the end of
    `run()`, and closing (parked with a cancelled context / entering closedEarly). -/
theorem detector_sound_partial (s : St) (hr : Reachable s) (hw : s.state = .waiting ∨ s.state = .finished)
    (hout : InWindow s = false) : Quiescent s = true := by
  rcases Arca.Proofs.PluginState.classified s (Arca.Proofs.PluginState.reachable_inv s hr) hw with h | h
  · exact h
  · rw [hout] at h
    cases h

/-- the same read the other way round: outside the windows an active step says `starting` or `running` -/
theorem active_step_reports_activity (s : St) (hr : Reachable s) (hq : Quiescent s = false) (hout : InWindow s = false) :
    s.state = .starting ∨ s.state = .running := by
  cases hst : s.state with
  | starting => exact Or.inl rfl
  | running => exact Or.inr rfl
  | waiting => have := detector_sound_partial s hr (Or.inl hst) hout; rw [hq] at this; cases this
  | finished => have := detector_sound_partial s hr (Or.inr hst) hout; rw [hq] at this; cases this

/-- every window is left by moves of `run()` alone (it is never quiescent) — so each lasts only as long as `run()` is
    not scheduled or a callback is held up -/
theorem windows_are_not_quiescent (s : St) (hr : Reachable s) (hin : InWindow s = true) : Quiescent s = false := by
  have hi := Arca.Proofs.PluginState.reachable_inv s hr
  cases hq : Quiescent s with
  | false => rfl
  | true =>
    rcases Arca.Proofs.PluginState.quiescent_shape s hi hq with h | h | h | h <;>
      rcases s with ⟨pc, state, stage, dA, eA, rA, dO, eO, eV, rO, early, ctx⟩ <;>
      simp only at h <;>
      (first | (obtain ⟨rfl, rfl, rfl⟩ := h) | subst h) <;>
      simp [InWindow, inDeployRace, inEnableWindow, inStartWindow, inCompletionWindow, inClosingWindow] at hin

/-! ## why a short window cannot trigger the detector -/

/-- `checkForDeadlocks(retries)` reports "no more possible steps" only if `retries + 1` consecutive polls ALL saw no
    `starting`/`running` step — for the retry count read from the source (3): four polls. -/
theorem detector_needs_quiescence_for_three_polls (polls : List (List RState))
    (h : detectorFires Arca.Gen.detectorRetries polls = true) :
    (polls.take (Arca.Gen.detectorRetries + 1)).length = Arca.Gen.detectorRetries + 1 ∧
    (polls.take (Arca.Gen.detectorRetries + 1)).all idle = true :=
  Arca.Proofs.PluginState.fires_take _ polls h

/-- a single poll among them that sees a `starting` or `running` step stops the detector -/
theorem one_active_poll_stops_detector (polls : List (List RState)) (i : Nat) (p : List RState)
    (hi : i ≤ Arca.Gen.detectorRetries) (hp : polls[i]? = some p) (hbusy : idle p = false) :
    detectorFires Arca.Gen.detectorRetries polls = false :=
  Arca.Proofs.PluginState.busy_poll_stops _ polls i p hi hp hbusy

/-- logical time: the polls happen at `t0, t0 + d, .., t0 + retries * d`; a window `[a, b)` during which a step wrongly
    looks idle covers all of them only if it is longer than `retries * d` (3 × 10 ms for the current constants) -/
theorem short_window_cannot_trigger (t0 d a b : Nat) (hshort : b ≤ a + Arca.Gen.detectorRetries * d) :
    ¬ (∀ i, i ≤ Arca.Gen.detectorRetries → a ≤ t0 + i * d ∧ t0 + i * d < b) := by
  intro h
  have h0 := h 0 (Nat.zero_le _)
  have hr := h Arca.Gen.detectorRetries (Nat.le_refl _)
  simp only [Nat.zero_mul, Nat.add_zero] at h0
  omega

/-! ## non-vacuity -/

/-- quiescent waiting states exist (parked on the empty deploy channel) and satisfy the partial theorem's hypotheses -/
example : (execute init toDeployWait).map (fun s => (s.state, Quiescent s, InWindow s)) = some (.waiting, true, false) := by
  decide

/-- the step does get through to `done`, where `finished` is sound -/
example : (execute init (toStartTry ++ [.internal, .internal, .internal, .internal, .provideStarting, .recv, .internal,
    .startOk, .internal, .internal, .resultOk, .internal, .internal, .internal, .internal, .internal])).map
    (fun s => (s.pc, s.state, s.stage, Quiescent s)) = some (.done, .finished, .outputs, true) := by decide

/-- the detector does fire on four idle polls and not on three -/
example : detectorFires Arca.Gen.detectorRetries [[.waiting], [.waiting, .finished], [.finished], [.waiting]] = true := by decide
example : detectorFires Arca.Gen.detectorRetries [[.waiting], [.waiting], [.waiting]] = false := by decide
example : detectorFires Arca.Gen.detectorRetries [[.waiting], [.waiting], [.running], [.waiting], [.waiting]] = false := by decide

/-- a window of 31 ms can cover the four polls, one of 30 ms cannot -/
example : ∀ i, i ≤ Arca.Gen.detectorRetries → 0 ≤ 0 + i * 10 ∧ 0 + i * 10 < 31 := by decide

end Arca.Props.C09
