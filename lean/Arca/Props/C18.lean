/-
C18 — built-in expression functions are total, typed as declared and obey their laws.

Property theorems only (helper lemmas: Arca/Proofs/BuiltinsFloat.lean, Arca/Proofs/BuiltinsString.lean).  All
statements quantify over ALL arguments (every bit pattern, every int64, every string, every list).

Totality and determinism hold for the model by construction: every definition of `Arca.Model.Builtins` is a total
Lean function (`callBuiltin` returns `ok v`, `err`, `notModelled` or `badArgs`, there is no panic constructor to
reach).  That the real functions never panic, are deterministic, return values of their declared type and agree with
the model is the correspondence stream `vharness builtins | arcadrv builtins`; that the functions are still the ones
modelled is the pin `builtins_table_pinned` on the table regenerated from the source on every run.

Floats: `scaled x : Int` is the exact value of the double `x` times 2^1074 (±Inf: ±2^2098), so comparisons of
`scaled` are comparisons of the real values.

Not proved here (not modelled value-exactly, see Model/Builtins.lean): the text produced by floatToString /
floatToFormattedString and the value parsed by stringToFloat.  Their declared-pattern typing and the round trip
`stringToFloat (floatToString x) = x` are checked on the real code by the harness for every generated argument.
-/
import Arca.Proofs.BuiltinsFloat
import Arca.Proofs.BuiltinsRound
import Arca.Proofs.BuiltinsString
import Arca.Gen.Builtins
import Arca.Expected.Builtins

set_option exponentiation.threshold 4096

namespace Arca.Props.C18
open Arca.Model Arca.Model.Builtins Arca.Proofs.Builtins

/-! ### floatToInt -/

/-- float-to-int truncates toward zero: for a finite `x` with |x| < 2^63 the result `r` satisfies
    |r| ≤ |x| < |r| + 1 and has the sign of `x` (all on exact scaled integers), and lies in the int64 range. -/
theorem floatToInt_trunc (x : Nat) (hn : isNaN x = false) (hr : (scaled x).natAbs < 2 ^ 63 * unit) :
    ∃ r : Int, floatToInt x = some r ∧
      r.natAbs * unit ≤ (scaled x).natAbs ∧ (scaled x).natAbs < (r.natAbs + 1) * unit ∧
      (0 ≤ scaled x → 0 ≤ r) ∧ (scaled x ≤ 0 → r ≤ 0) ∧ minInt64 < r ∧ r ≤ maxInt64 := by
  rw [scaled_natAbs] at hr
  exact floatToInt_trunc_aux hn hr

/-- float-to-int is monotonic on all non-NaN doubles, infinities included -/
theorem floatToInt_monotone (x y : Nat) (a b : Int) (hx : floatToInt x = some a) (hy : floatToInt y = some b)
    (hle : scaled x ≤ scaled y) : a ≤ b :=
  floatToInt_monotone_aux hx hy hle

/-- float-to-int saturates: x ≥ 2^63 gives MaxInt64, x ≤ -2^63 gives MinInt64, the infinities likewise, NaN is the
    only error -/
theorem floatToInt_saturates (x : Nat) :
    (isNaN x = false → (2 ^ 63 * unit : Int) ≤ scaled x → floatToInt x = some maxInt64) ∧
    (isNaN x = false → scaled x ≤ -(2 ^ 63 * unit : Int) → floatToInt x = some minInt64) ∧
    (isInf x = true → floatToInt x = some (if fSign x then minInt64 else maxInt64)) ∧
    (isNaN x = true → floatToInt x = none) ∧
    (isNaN x = false → ∃ r, floatToInt x = some r ∧ minInt64 ≤ r ∧ r ≤ maxInt64) := by
  refine ⟨floatToInt_sat_hi, floatToInt_sat_lo, floatToInt_inf, floatToInt_nan, ?_⟩
  intro hn
  rw [floatToInt_eq hn]
  refine ⟨_, rfl, ?_⟩
  unfold minInt64 maxInt64
  cases fSign x <;> simp only [Bool.false_eq_true, if_false, if_true] <;> split <;> omega

/-! ### intToFloat, floor, ceil, round, abs: exact on the scaled value -/

/-- int → float is exact for |i| < 2^53 (beyond that it rounds to nearest even: see the examples) -/
theorem intToFloat_exact (i : Int) (h : i.natAbs < 2 ^ 53) :
    scaled (intToFloat i) = i * (unit : Int) ∧ isNaN (intToFloat i) = false :=
  intToFloat_exact_aux i h

/-- int → float → int is the identity for |i| < 2^53 -/
theorem floatToInt_intToFloat (i : Int) (h : i.natAbs < 2 ^ 53) : floatToInt (intToFloat i) = some i :=
  floatToInt_intToFloat_aux i h

/-- floor: the greatest integer k ≤ x (|x| < 2^52); at and above 2^52 (and for ±Inf, NaN) x itself, which is integral -/
theorem floor_spec (x : Nat) :
    (fExp x < 1075 → ∃ k : Int, scaled (floorBits x) = k * (unit : Int) ∧
        k * (unit : Int) ≤ scaled x ∧ scaled x < (k + 1) * (unit : Int)) ∧
    (fExp x ≥ 1075 → floorBits x = x ∧ unit ∣ scaledAbs x) :=
  ⟨floor_spec_aux x, fun h => ⟨by simp [floorBits, h], integral_big h⟩⟩

/-- ceil: the least integer k ≥ x -/
theorem ceil_spec (x : Nat) :
    (fExp x < 1075 → ∃ k : Int, scaled (ceilBits x) = k * (unit : Int) ∧
        (k - 1) * (unit : Int) < scaled x ∧ scaled x ≤ k * (unit : Int)) ∧
    (fExp x ≥ 1075 → ceilBits x = x ∧ unit ∣ scaledAbs x) :=
  ⟨ceil_spec_aux x, fun h => ⟨by simp [ceilBits, h], integral_big h⟩⟩

/-- round: the integer n nearest to |x|, halves away from zero (n ≤ |x| + 1/2 < n + 1), with the sign of x -/
theorem round_spec (x : Nat) :
    (fExp x < 1075 → ∃ n : Nat, scaledAbs (roundBits x) = n * unit ∧ fSign (roundBits x) = fSign x ∧
        n * unit ≤ scaledAbs x + unit / 2 ∧ scaledAbs x + unit / 2 < (n + 1) * unit) ∧
    (fExp x ≥ 1075 → roundBits x = x ∧ unit ∣ scaledAbs x) :=
  ⟨round_spec_aux x, fun h => ⟨by simp [roundBits, h], integral_big h⟩⟩

/-- abs clears the sign bit and nothing else (also of a NaN) -/
theorem abs_spec (x : Nat) (hx : x < 2 ^ 64) :
    fSign (absBits x) = false ∧ fExp (absBits x) = fExp x ∧ fMant (absBits x) = fMant x ∧
      scaledAbs (absBits x) = scaledAbs x :=
  abs_spec_aux x hx

/-! ### integers and booleans as text -/

/-- int → string → int is the identity on every int64 -/
theorem stringToInt_intToString (i : Int) (hlo : minInt64 ≤ i) (hhi : i ≤ maxInt64) :
    stringToInt (intToString i) = some i :=
  stringToInt_intToString_aux i hlo hhi

/-- bool → string → bool is the identity -/
theorem stringToBool_boolToString (b : Bool) : stringToBool (boolToString b) = some b :=
  stringToBool_boolToString_aux b

/-! ### splitString -/

/-- joining the pieces with the separator gives the string back (also for the empty separator) -/
theorem split_join (s sep : String) : joinString sep (splitString s sep) = s := by
  unfold joinString splitString
  rw [List.map_map]
  have : (String.toList ∘ String.ofList) = id := by funext l; simp
  rw [this, List.map_id, join_splitChars, String.ofList_toList]

/-- the number of pieces is the number of (non-overlapping, leftmost-first) occurrences of the separator plus one;
    the empty separator gives one piece per code point -/
theorem split_count (s sep : String) :
    (sep.toList ≠ [] → (splitString s sep).length = countChars s.toList sep.toList + 1) ∧
    (sep.toList = [] → (splitString s sep).length = s.toList.length) := by
  unfold splitString splitChars countChars
  constructor
  · intro h
    cases hs : sep.toList with
    | nil => exact absurd hs h
    | cons a as => simp [length_splitGo]
  · intro h
    simp [h]

/-! ### bindConstants -/

theorem bindConstants_length (items : List Val) (c : Val) : (bindConstants items c).length = items.length := by
  simp [bindConstants]

/-- the i-th result pairs the i-th item with the constant -/
theorem bindConstants_get (items : List Val) (c : Val) (i : Nat) (h : i < items.length) :
    (bindConstants items c)[i]? = some (Val.map [(constantKey, c), (itemKey, items[i])]) := by
  simp [bindConstants, h]

/-! ### toLower / toUpper on the modelled range -/

/-- idempotence on ASCII strings, whatever the case map of the other code points -/
theorem toLower_idempotent (caseMap : Char → Char) (s : String) (hs : s.toList.all isAscii = true) :
    toLowerWith caseMap (toLowerWith caseMap s) = toLowerWith caseMap s :=
  toLowerWith_idem_ascii caseMap s hs

theorem toUpper_idempotent (caseMap : Char → Char) (s : String) (hs : s.toList.all isAscii = true) :
    toUpperWith caseMap (toUpperWith caseMap s) = toUpperWith caseMap s :=
  toUpperWith_idem_ascii caseMap s hs

/-- idempotence on all strings for a per-code-point map that is itself idempotent -/
theorem toLower_idempotent_of (caseMap : Char → Char)
    (h : ∀ c, lowerChar caseMap (lowerChar caseMap c) = lowerChar caseMap c) (s : String) :
    toLowerWith caseMap (toLowerWith caseMap s) = toLowerWith caseMap s :=
  toLowerWith_idem_of caseMap h s

theorem toUpper_idempotent_of (caseMap : Char → Char)
    (h : ∀ c, upperChar caseMap (upperChar caseMap c) = upperChar caseMap c) (s : String) :
    toUpperWith caseMap (toUpperWith caseMap s) = toUpperWith caseMap s :=
  toUpperWith_idem_of caseMap h s

/-! ### shape contracts of the float text functions (typing only) -/

/-- whatever satisfies the model's shape contract of floatToString matches the declared output pattern
    `^(?:NaN|[-+]Inf|-?\d+(?:\.\d+)?)$` -/
theorem floatToString_shape_typed (x : Nat) (s : String) (h : floatToStringShape x s = true) :
    floatToStringPattern s = true := by
  unfold floatToStringShape at h
  unfold floatToStringPattern
  split at h
  · simp_all
  · split at h
    · cases hs : fSign x <;> simp_all
    · simp_all

/-! ### the tie to the source -/

/-- ids, parameter and output descriptors, error flag and handler text of every built-in, as extracted from
    `/repo/internal/builtinfunctions/functions.go` on this run, are the ones the model was written against -/
theorem builtins_table_pinned : Arca.Gen.builtins = Arca.Expected.builtins := by rfl

/-- the functions computing the dynamic output type of bindConstants and the constants they use are unchanged -/
theorem builtins_type_handlers_pinned :
    Arca.Gen.builtinTypeHandlers = Arca.Expected.builtinTypeHandlers ∧ Arca.Gen.builtinConsts = Arca.Expected.builtinConsts :=
  ⟨by rfl, by rfl⟩

/-- the property names of the objects bindConstants builds are the constants of the source -/
theorem bindConstants_keys_pinned :
    Arca.Model.lookup "CombinedObjPropertyConstantName" Arca.Gen.builtinConsts = some constantKey ∧
    Arca.Model.lookup "CombinedObjPropertyItemName" Arca.Gen.builtinConsts = some itemKey := by decide

/-- the model dispatches exactly the extracted ids with the extracted arities -/
theorem builtins_ids_modelled :
    Arca.Gen.builtins.map (fun r => (r.id, r.params.length)) = modelledIds := by decide

/-! ### non-vacuity -/

-- 5.5 → 5, -1.9 → -1, 2^63 → MaxInt64, -Inf → MinInt64, NaN → error
example : floatToInt 0x4016000000000000 = some 5 := by decide +kernel
example : floatToInt 0xbffe666666666666 = some (-1) := by decide +kernel
example : floatToInt 0x43e0000000000000 = some maxInt64 := by decide +kernel
example : floatToInt 0xc3e158e460913d00 = some minInt64 := by decide +kernel   -- -1e19
example : floatToInt 0xfff0000000000000 = some minInt64 := by decide +kernel
example : floatToInt 0x7ff8000000000001 = none := by decide +kernel
-- the hypotheses of floatToInt_trunc are satisfiable (x = -1.9)
example : isNaN 0xbffe666666666666 = false ∧ (scaled 0xbffe666666666666).natAbs < 2 ^ 63 * unit := by decide +kernel
-- monotone: -1.9 ≤ 5.5
example : scaled 0xbffe666666666666 ≤ scaled 0x4016000000000000 := by decide +kernel
-- saturation hypotheses are satisfiable (1e19, -1e19)
example : (2 ^ 63 * unit : Int) ≤ scaled 0x43e158e460913d00 := by decide +kernel
example : scaled 0xc3e158e460913d00 ≤ -(2 ^ 63 * unit : Int) := by decide +kernel
example : stringToInt (intToString minInt64) = some minInt64 := stringToInt_intToString _ (by decide) (by decide)
example : stringToInt "9223372036854775808" = none := by decide +kernel
example : stringToInt "+7" = some 7 ∧ stringToInt "1_000" = none ∧ stringToInt "" = none := by decide +kernel
example : stringToBool "TRUE" = some true ∧ stringToBool "yes" = none := by decide +kernel
example : splitString "a,b,,c" "," = ["a", "b", "", "c"] := by decide +kernel
example : splitString "aaa" "aa" = ["", "a"] ∧ splitString "" "," = [""] ∧ splitString "ab" "" = ["a", "b"] := by decide +kernel
example : joinString "," ["a", "b", "", "c"] = "a,b,,c" := by decide +kernel
example : (bindConstants [.int 1, .int 2] (.str "k")).length = 2 := by decide
example : toLower "MiXeD 1" = "mixed 1" ∧ toUpper "MiXeD 1" = "MIXED 1" := by decide +kernel
example : ("MiXeD 1".toList.all isAscii) = true := by decide +kernel
example : floatToStringShape 0xc014000000000000 "-5" = true := by decide +kernel
-- intToFloat rounds to nearest even: 2^53+1 → 2^53, 2^53+3 → 2^53+4, MaxInt64 → 2^63
example : intToFloat 9007199254740993 = 0x4340000000000000 ∧ intToFloat 9007199254740995 = 0x4340000000000002 ∧
    intToFloat maxInt64 = 0x43e0000000000000 ∧ intToFloat minInt64 = 0xc3e0000000000000 := by decide +kernel
-- floor / ceil / round on -0.5: -1, -0, -1
example : floorBits 0xbfe0000000000000 = 0xbff0000000000000 ∧ ceilBits 0xbfe0000000000000 = 0x8000000000000000 ∧
    roundBits 0xbfe0000000000000 = 0xbff0000000000000 := by decide +kernel

-- 2.5 has exponent below 52: floor_spec / ceil_spec / round_spec apply; round(2.5) = 3, round(-2.5) = -3
example : fExp 0x4004000000000000 < 1075 ∧ roundBits 0x4004000000000000 = 0x4008000000000000 ∧
    roundBits 0xc004000000000000 = 0xc008000000000000 ∧ floorBits 0xc004000000000000 = 0xc008000000000000 ∧
    ceilBits 0x4004000000000000 = 0x4008000000000000 := by decide +kernel
example : floatToInt (intToFloat (-9007199254740991)) = some (-9007199254740991) := floatToInt_intToFloat _ (by decide)
example : absBits 0xfff8000000000001 = 0x7ff8000000000001 ∧ absBits 0x8000000000000000 = 0 := by decide +kernel

end Arca.Props.C18
