/-
C01 — every workflow run terminates with one output or an error.

Property theorems only (helper lemmas live in Arca/Proofs).  All statements quantify over every prepared workflow
`P` (any size and shape), every table of functions, every processing order of the ready sets (Go's map iteration
order), every loop state and every event history.

What is proved here is the run-loop part of the property: the loop never blocks while holding the run lock, produces
at most one output, keeps the error buffer within the capacity read from the source, and reports "no more outputs"
exactly once.  That `Execute` itself returns (the providers deliver their callbacks, `terminateAllSteps` returns) is
validated on generated histories against the real code, not proved: see DESIGN.md, C01, "partial".
-/
import Arca.Proofs.LoopInv
import Arca.Gen.Consts

namespace Arca.Props.C01
open Arca.Model

/-- (a) No reaction of the run loop performs a blocking operation while the run lock is held. -/
theorem no_blocking_send (P : Prepared) (fns : Fns) (ord : Order) (h : List Event) :
    ∀ a ∈ (run P fns ord h).2, a.isStuck = false :=
  run_no_stuck P fns ord h

/-- (b) At most one workflow output is ever produced, and it is the one stored as the result. -/
theorem at_most_one_output (P : Prepared) (fns : Fns) (ord : Order) (h : List Event) :
    countP Action.isOutput (run P fns ord h).2 ≤ 1 ∧
    ∀ id v, Action.output id v ∈ (run P fns ord h).2 → (run P fns ord h).1.result = some (id, v) :=
  ⟨run_at_most_one_output P fns ord h, run_result P fns ord h⟩

/-- (c) "all outputs marked as unresolvable" is reported at most once per run (it used to be re-sent for every
    further failing dependency until the error channel blocked: finding F1). -/
theorem no_more_outputs_once (P : Prepared) (fns : Fns) (ord : Order) (h : List Event) :
    countP Action.isNoMoreOutputs (run P fns ord h).2 ≤ 1 :=
  run_noMoreOutputs_once P fns ord h

/-- (d) The number of buffered errors never exceeds the capacity of the channel — for the capacity the current
    source declares (`Arca.Gen.errCap`, regenerated on every run) as for any other. -/
theorem error_buffer_bounded (P : Prepared) (fns : Fns) (ord : Order) (h : List Event) :
    (run P fns ord h).1.errs ≤ P.errCap :=
  run_errs_le_cap P fns ord h

/-- the capacity found in the source leaves room for the two distinct end-of-run errors -/
theorem error_capacity_sufficient : 2 ≤ Arca.Gen.errCap := by decide

/-- (e) The loop dies only through an explicit panic action (the panic sites are the subject of C07). -/
theorem dead_only_by_panic (P : Prepared) (fns : Fns) (ord : Order) (s : LoopState) (e : Event)
    (hs : s.dead = false) (hd : (react P fns ord s e).1.dead = true) :
    ∃ a ∈ (react P fns ord s e).2, a.isPanic = true :=
  react_dead_only_by_panic P fns ord s e hs hd

/-! non-vacuity: a concrete workflow on which the loop does produce its output and reports nothing else -/

def demoOut : Item :=
  { kind := .output
    output := "success"
    data := some (.map [("x", .expr (.dot (.dot .root "input") "name"))]) }

def demoP : Prepared :=
  { dag := { nodes := [⟨"input", .waiting, [], []⟩, ⟨"outputs.success", .waiting, [("input", .and)], []⟩],
             edges := [("input", "outputs.success", .and)], ready := [] }
    items := [("input", { kind := .input }), ("outputs.success", demoOut)]
    stages := []
    errCap := Arca.Gen.errCap }

def demoResult : Option (String × Val) :=
  (run demoP (fun fn _ => .error (.unknownFn fn)) id [.start (.map [("name", .str "n")])]).1.result

example : (match demoResult with
    | some (id, v) => id == "success" && v == .map [("x", .str "n")]
    | none => false) = true := by decide

end Arca.Props.C01
