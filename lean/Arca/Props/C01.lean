/-
C01 — every workflow run terminates with one output or an error.

Property theorems only (helper lemmas live in Arca/Proofs).  All statements quantify over every prepared workflow
`P` (any size and shape), every table of functions, every processing order of the ready sets (Go's map iteration
order), every loop state and every event history.

What is proved here is the run-loop part of the property: the loop never blocks while holding the run lock, produces
at most one output, keeps the error buffer within the capacity read from the source, and reports "no more outputs"
exactly once; and (i) COMPLETENESS: once every step of a well-formed workflow has completed, the loop HAS produced an
output or reported "no more outputs" / an evaluation failure — it never ends a finished workflow silently
(`quiescent_run_has_verdict`, proofs in `Arca/Proofs/LoopComplete.lean`, every hypothesis decided by the driver on every
real workflow and history and backed by a counterexample theorem, `quiescent_hypotheses_needed`).  That `Execute` itself
returns (the providers deliver their callbacks, `terminateAllSteps` returns) is validated on generated histories against
the real code, not proved: see DESIGN.md, C01, "partial".

(f)–(h) are what the repair of finding F11 achieves (`markRemainingStagesUnresolvable`, called when a step reports its
completion): the stages a completed step did not go through are declared impossible at once, so nothing keeps waiting
for them until unrelated steps end.
-/
import Arca.Proofs.LoopInv
import Arca.Proofs.LoopSettle
import Arca.Proofs.LoopFinishedCex
import Arca.Proofs.LoopComplete
import Arca.Proofs.LoopCompleteCex
import Arca.Gen.Consts

namespace Arca.Props.C01
open Arca.Model

/-- (a) No reaction of the run loop performs a blocking operation while the run lock is held. -/
theorem no_blocking_send (P : Prepared) (fns : Fns) (ord : Order) (h : List Event) :
    ∀ a ∈ (run P fns ord h).2, a.isStuck = false :=
  run_no_stuck P fns ord h

/-- (b) At most one workflow output is ever produced, and it is the one stored as the result. -/
theorem at_most_one_output (P : Prepared) (fns : Fns) (ord : Order) (h : List Event) :
    countP Action.isOutput (run P fns ord h).2 ≤ 1 ∧
    ∀ id v, Action.output id v ∈ (run P fns ord h).2 → (run P fns ord h).1.result = some (id, v) :=
  ⟨run_at_most_one_output P fns ord h, run_result P fns ord h⟩

/-- (c) "all outputs marked as unresolvable" is reported at most once per run (it used to be re-sent for every
    further failing dependency until the error channel blocked: finding F1). -/
theorem no_more_outputs_once (P : Prepared) (fns : Fns) (ord : Order) (h : List Event) :
    countP Action.isNoMoreOutputs (run P fns ord h).2 ≤ 1 :=
  run_noMoreOutputs_once P fns ord h

/-- (d) The number of buffered errors never exceeds the capacity of the channel — for the capacity the current
    source declares (`Arca.Gen.errCap`, regenerated on every run) as for any other. -/
theorem error_buffer_bounded (P : Prepared) (fns : Fns) (ord : Order) (h : List Event) :
    (run P fns ord h).1.errs ≤ P.errCap :=
  run_errs_le_cap P fns ord h

/-- the capacity found in the source leaves room for the two distinct end-of-run errors -/
theorem error_capacity_sufficient : 2 ≤ Arca.Gen.errCap := by decide

/-- (e) The loop dies only through an explicit panic action (the panic sites are the subject of C07). -/
theorem dead_only_by_panic (P : Prepared) (fns : Fns) (ord : Order) (s : LoopState) (e : Event)
    (hs : s.dead = false) (hd : (react P fns ord s e).1.dead = true) :
    ∃ a ∈ (react P fns ord s e).2, a.isPanic = true :=
  react_dead_only_by_panic P fns ord s e hs hd


/-! ### promptness after a step completes (repair of finding F11) -/

/--
(f) `completed_step_settles_all_its_stages`.  After a legal completion callback of step `step` has been processed —
in any state reachable by legal callbacks (`LoopDagInv`, `LoopSafeInv`, `FinConv`, alive) — the loop is still alive
and every stage node and every declared stage-output node of `step` is resolved or unresolvable: none is left waiting
(`StepSettled`, spelled out in `stepSettled_iff`).  `EventReports` = the completed stage, if it declares outputs, is
reported with one of them (both providers do).
-/
theorem completed_step_settles_all_its_stages (P : Prepared) (fns : Fns) (ord : Order) (hord : OrdOK ord)
    (hnd : OrdNodup ord) (hP : P.WF2) (s : LoopState) (h : LoopDagInv P s) (hc : LoopSafeInv P s)
    (hd : s.dead = false) (hfc : FinConv P s) (step prev : String) (out : Option (String × Val)) (busy : Bool)
    (hl : LegalEvent P s (.stepComplete step prev out busy)) (hr : EventReports P (.stepComplete step prev out busy)) :
    (react P fns ord s (.stepComplete step prev out busy)).1.dead = false ∧
    StepSettled P (react P fns ord s (.stepComplete step prev out busy)).1.dag step := by
  refine ⟨?_, (react_settle P fns ord hord hnd hP s _ h hc hd hfc hl hr).2 step prev out busy rfl⟩
  obtain ⟨hnp, _⟩ := react_legal_no_panic P fns ord hord hnd hP s _ h hc hl
  cases hdd : (react P fns ord s (.stepComplete step prev out busy)).1.dead with
  | false => rfl
  | true =>
    obtain ⟨a, ha, hp⟩ := react_dead_only_by_panic P fns ord s _ hd hdd
    rw [hnp a ha] at hp; cases hp

/-- what `StepSettled` says -/
theorem stepSettled_iff (P : Prepared) (g : Graph String) (step : String) :
    StepSettled P g step ↔ ∀ stage, P.declares step stage →
      ¬ statusIs g (stageNodeId step stage) St.waiting ∧
      ∀ o ∈ P.outputsOf step stage, ¬ statusIs g (outputNodeId step stage o) St.waiting := Iff.rfl

/--
(g) `completed_steps_stay_settled`.  Along every legal history from the initial state, every step whose completion
callback was processed is settled in the final state, and the loop is alive.
-/
theorem completed_steps_stay_settled (P : Prepared) (fns : Fns) (ord : Order) (hord : OrdOK ord) (hnd : OrdNodup ord)
    (hP : P.WF2) (h : List Event) (hl : LegalHistory P fns ord (LoopState.init P) h)
    (hr : ∀ e ∈ h, EventReports P e) (step : String)
    (hc : ∃ prev out busy, Event.stepComplete step prev out busy ∈ h) :
    (run P fns ord h).1.dead = false ∧ StepSettled P (run P fns ord h).1.dag step :=
  ⟨(legal_history_never_panics P fns ord hord hnd hP h hl).2,
   (runFrom_settle P fns ord hord hnd hP h _ (init_dag_inv P hP.wf) (init_safe_inv P hP.wf) rfl (init_fin_conv P) hl hr).2
     step hc⟩

/--
(h) `all_steps_completed_nothing_waits_for_a_step`.  If every step of the workflow has completed (the completion
callback of every step that declares a stage is in the legal history), then in the final state
1. the loop is alive and every step node (stage node or declared stage-output node of any step) is settled;
2. a node all of whose dependencies are step nodes has NO outstanding dependency left (`out = []`): nothing keeps it
   waiting for a step;
3. a node with a required (`and`) dependency on a failed (unresolvable) step node is itself unresolvable: consumers of
   a stage the step did not go through fail at once.

Precisely what this covers and what it does not: it is a statement about the dependency graph (statuses and
outstanding-dependency lists).  That a node without outstanding dependencies HAS been taken from the ready set and
processed (group node resolved, output produced / "no more outputs" reported) — the ready-set bookkeeping of
`notifySteps` (`PopReadyNodes` in the same reaction) — is the subject of (i) `quiescent_run_has_verdict` below; it is
also validated on the four F11 shapes and on generated workflows against the real engine by the `prompt` and `engine`
streams of this property, and illustrated by the executable example `demoF_prompt`.
-/
theorem all_steps_completed_nothing_waits_for_a_step (P : Prepared) (fns : Fns) (ord : Order) (hord : OrdOK ord)
    (hnd : OrdNodup ord) (hP : P.WF2) (h : List Event) (hl : LegalHistory P fns ord (LoopState.init P) h)
    (hr : ∀ e ∈ h, EventReports P e)
    (hall : ∀ step stage, P.declares step stage → ∃ prev out busy, Event.stepComplete step prev out busy ∈ h) :
    (run P fns ord h).1.dead = false ∧
    (∀ id, IsStepNode P id → Settled (run P fns ord h).1.dag id) ∧
    (∀ x n, (run P fns ord h).1.dag.find? x = some n →
      (∀ ed ∈ P.dag.edges, ed.2.1 = x → IsStepNode P ed.1) → n.out = []) ∧
    (∀ ed ∈ P.dag.edges, IsStepNode P ed.1 → ed.2.2 = Dep.and → statusIs (run P fns ord h).1.dag ed.1 St.unres →
      statusIs (run P fns ord h).1.dag ed.2.1 St.unres) := by
  have hinv := run_dag_inv P fns ord hP.wf h
  have hset : ∀ id, IsStepNode P id → Settled (run P fns ord h).1.dag id := by
    rintro id ⟨step, stage, hd, hid⟩
    have := (completed_steps_stay_settled P fns ord hord hnd hP h hl hr step (hall step stage hd)).2 stage hd
    rcases hid with rfl | ⟨o, ho, rfl⟩
    · exact this.1
    · exact this.2 o ho
  refine ⟨(legal_history_never_panics P fns ord hord hnd hP h hl).2, hset, ?_, ?_⟩
  · intro x n hn hdeps
    refine no_outstanding_of_settled hinv.inv hn ?_
    intro ed he hto
    rw [hinv.edges] at he
    exact hset _ (hdeps ed he hto)
  · intro ed he hstep hand hun
    have he' : ed ∈ (run P fns ord h).1.dag.edges := by rw [hinv.edges]; exact he
    obtain ⟨n, hn⟩ := Graph.has_iff.1 (hinv.inv.edge_nodes ed he').2
    exact ⟨n, hn, (settled_source hinv.inv he' (hset _ hstep) hn).2 hand hun⟩


/-! ### completeness: a finished workflow never ends silently -/

/--
(i) `quiescent_run_has_verdict`.  For a well-formed prepared workflow (`WF3`: acyclic graph, outputs are sinks with data,
…), any processing order that is a permutation of the popped nodes (`OrdOK`, `OrdNodup`, `OrdAll`), and any LEGAL
history that starts with `start` and in which every step has completed: the loop is alive and never panicked, and
* an output was produced: it is stored as the result, and its `output` action occurred; or
* "no more outputs" was reported (sent, or dropped because the error buffer was full); or
* an evaluation failure was reported (`evalFailed`, sent or dropped)
(`Verdict`, spelled out in `verdict_iff`).  The run loop never ends a finished workflow silently.  Every hypothesis is needed: `LoopCompleteCex.lean`.
-/
theorem quiescent_run_has_verdict (P : Prepared) (fns : Fns) (ord : Order) (hord : OrdOK ord) (hnd : OrdNodup ord)
    (hall : OrdAll ord) (hP : P.WF3) (input : Val) (rest : List Event)
    (hl : LegalHistory P fns ord (LoopState.init P) (.start input :: rest))
    (hr : ∀ e ∈ rest, EventReports P e)
    (hcomp : ∀ step stage, P.declares step stage → ∃ prev out busy, Event.stepComplete step prev out busy ∈ rest) :
    (run P fns ord (.start input :: rest)).1.dead = false ∧
    (∀ a ∈ (run P fns ord (.start input :: rest)).2, a.isPanic = false) ∧
    Verdict (run P fns ord (.start input :: rest)) := by
  obtain ⟨hnp, hd⟩ := legal_history_never_panics P fns ord hord hnd hP.wf2 _ hl
  refine ⟨hd, hnp, ?_⟩
  rcases run_core hP fns ord hord hnd hall input rest hl with hef | ⟨hc, hrd⟩
  · exact Or.inr (Or.inr hef)
  · have hr' : ∀ e ∈ Event.start input :: rest, EventReports P e := by
      intro e he
      rcases List.mem_cons.1 he with rfl | he
      · trivial
      · exact hr e he
    have hstep := (all_steps_completed_nothing_waits_for_a_step P fns ord hord hnd hP.wf2 _ hl hr' (by
      intro step stage hdd
      obtain ⟨prev, out, busy, hm⟩ := hcomp step stage hdd
      exact ⟨prev, out, busy, List.mem_cons_of_mem _ hm⟩)).2.1
    rcases core_verdict hP hc hrd hstep with h1 | h1
    · left
      cases hres : (run P fns ord (.start input :: rest)).1.result with
      | none => rw [hres] at h1; cases h1
      | some p => exact ⟨p.1, p.2, rfl, run_result_has_action P fns ord _ p.1 p.2 hres⟩
    · exact Or.inr (Or.inl h1)

def hasAct (p : Action → Bool) (l : List Action) : Bool := l.any p

/-- what `Verdict` says -/
theorem verdict_iff (r : LoopState × List Action) :
    Verdict r ↔ ((∃ oid v, r.1.result = some (oid, v) ∧ Action.output oid v ∈ r.2) ∨
      (∃ a ∈ r.2, a.isNoMoreOutputs = true) ∨ (∃ a ∈ r.2, a.isEvalFailed = true)) := Iff.rfl

/-! non-vacuity: a concrete workflow on which the loop does produce its output and reports nothing else -/

def demoOut : Item :=
  { kind := .output
    output := "success"
    data := some (.map [("x", .expr (.dot (.dot .root "input") "name"))]) }

def demoP : Prepared :=
  { dag := { nodes := [⟨"input", .waiting, [], []⟩, ⟨"outputs.success", .waiting, [("input", .and)], []⟩],
             edges := [("input", "outputs.success", .and)], ready := [] }
    items := [("input", { kind := .input }), ("outputs.success", demoOut)]
    stages := []
    errCap := Arca.Gen.errCap }

def demoResult : Option (String × Val) :=
  (run demoP (fun fn _ => .error (.unknownFn fn)) id [.start (.map [("name", .str "n")])]).1.result

example : (match demoResult with
    | some (id, v) => id == "success" && v == .map [("x", .str "n")]
    | none => false) = true := by decide


/-! #### `quiescent_run_has_verdict`: the hypotheses are met, and each one is needed

The hypotheses as the DRIVER decides them on every real prepared workflow and delivered history
(`Prepared.wf3Clauses`, `legalHistoryB`, `eventReportsB`, `allCompleteB`, `Arca/Model/LoopCheck.lean`) imply the
hypotheses of the theorem (`Arca/Proofs/LoopCheckSound.lean`); `quiescent_stmt` is the theorem in that form. -/

open Arca.Model.CompleteCex in
theorem quiescent_stmt : QuiescentStmt Prepared.WF3OK OrdPerm StartComplete := by
  rintro P fns ord h ⟨h1, h2, h3⟩ hW hl hr ⟨input, rest, rfl, hc⟩
  exact (quiescent_run_has_verdict P fns ord h1 h2 h3 hW.sound input rest hl
    (fun e he => hr e (List.mem_cons_of_mem _ he)) hc).2.2

/-- every hypothesis of `quiescent_run_has_verdict` is needed: dropping any one well-formedness clause that was added for
it (`output_sink`: see `ready_empty_needs_output_sink`, C03), `OrdAll`, the initial `start`, or the completion of the
steps makes the statement false (`Arca/Proofs/LoopCompleteCex.lean`) -/
theorem quiescent_hypotheses_needed :
    let Q := Arca.Model.CompleteCex.QuiescentStmt
    let A := Arca.Model.CompleteCex.AllBut
    let O := Arca.Model.CompleteCex.OrdPerm
    let H := Arca.Model.CompleteCex.StartComplete
    ¬ Q (A "acyclic") O H ∧ ¬ Q (A "has_input") O H ∧ ¬ Q (A "input_id") O H ∧ ¬ Q (A "stage_declared") O H ∧
    ¬ Q (A "items_nodup") O H ∧ ¬ Q (A "has_output") O H ∧ ¬ Q (A "output_is_node") O H ∧ ¬ Q (A "output_data") O H ∧
    ¬ Q Prepared.WF3OK (fun ord => OrdOK ord ∧ OrdNodup ord) H ∧
    ¬ Q Prepared.WF3OK O Arca.Model.CompleteCex.AllComplete ∧
    ¬ Q Prepared.WF3OK O Arca.Model.CompleteCex.StartsWithStart :=
  open Arca.Model.CompleteCex in
  ⟨quiescent_needs_acyclic, quiescent_needs_has_input, quiescent_needs_input_id, quiescent_needs_stage_declared,
   quiescent_needs_items_nodup, quiescent_needs_has_output, quiescent_needs_output_is_node, quiescent_needs_output_data,
   quiescent_needs_OrdAll, quiescent_needs_start, quiescent_needs_completion⟩

/-! non-vacuity of `quiescent_run_has_verdict`: `CompleteCex.PX` (step `a` with the stages `s` — output `ok` — and `t`;
the workflow output needs `steps.a.s.ok`) is well-formed, both histories are legal and complete, so the theorem applies;
the verdict is the output in one case and "no more outputs" in the other. -/

open Arca.Model.CompleteCex in
example : Verdict (run PX fns0 id (.start .null :: HXgood)) :=
  (quiescent_run_has_verdict PX fns0 id ordPerm_id.1 ordPerm_id.2.1 ordPerm_id.2.2 PX_wf.sound .null HXgood
    PX_good_legal (all_eventReportsB (by decide +kernel)) (allCompleteB_sound (by decide +kernel))).2.2

open Arca.Model.CompleteCex in
example : Verdict (run PX fns0 id (.start .null :: HXbad)) :=
  (quiescent_run_has_verdict PX fns0 id ordPerm_id.1 ordPerm_id.2.1 ordPerm_id.2.2 PX_wf.sound .null HXbad
    PX_bad_legal (all_eventReportsB (by decide +kernel)) (allCompleteB_sound (by decide +kernel))).2.2

open Arca.Model.CompleteCex in
example : (match (run PX fns0 id (.start .null :: HXgood)).1.result with
    | some (id, v) => id == "o" && v == .str "v"
    | none => false) = true := by decide +kernel
open Arca.Model.CompleteCex in
example : hasAct Action.isNoMoreOutputs (run PX fns0 id (.start .null :: HXgood)).2 = false := by decide +kernel
open Arca.Model.CompleteCex in
example : (run PX fns0 id (.start .null :: HXbad)).1.result.isSome = false := by decide +kernel
open Arca.Model.CompleteCex in
example : hasAct Action.isNoMoreOutputs (run PX fns0 id (.start .null :: HXbad)).2 = true := by decide +kernel

/-! non-vacuity of (f)–(h): `SafeCex.PG` (step `a` with the stages `s` and `t`, `PG_wf2 : PG.WF2`); the step completes
with its stage `t` without ever going through `s`.  The history is legal, so the theorems apply; and what they say is
not trivial: the stage node of `s` IS a node, and it ends up unresolvable instead of waiting. -/

open Arca.Model.SafeCex in
def histPG : List Event := [.start .null, .stepComplete "a" "t" none false]

open Arca.Model.SafeCex in
theorem histPG_legal : LegalHistory PG fns0 id (LoopState.init PG) histPG := by
  refine ⟨⟨PG_plain.noOutputResolved _, fun n hn => (PG_plain.fresh n hn).1⟩, ?_, trivial⟩
  have hin : statusIs (react PG fns0 id (LoopState.init PG) (.start .null)).1.dag "input" St.resolved := by
    rw [statusIs_iff]; decide +kernel
  refine ⟨PG_declares_at, ?_, ?_, ?_, ?_⟩
  · rw [statusIs_iff]; decide +kernel
  · intro ed he _ _
    simp [PG] at he
    rcases he with rfl | rfl <;> exact hin
  · intro ed he _ h2
    simp [PG] at he
    rcases he with rfl | rfl <;> cases h2
  · intro oid v h; cases h

open Arca.Model.SafeCex in
theorem histPG_reports : ∀ e ∈ histPG, EventReports PG e := by
  intro e he
  simp [histPG] at he
  rcases he with rfl | rfl
  · trivial
  · intro _; exact PG_outputsOf _ _

open Arca.Model.SafeCex in
example : StepSettled PG (run PG fns0 id histPG).1.dag "a" :=
  (completed_steps_stay_settled PG fns0 id ordId_ok ordId_nodup PG_wf2 histPG histPG_legal histPG_reports "a"
    ⟨"t", none, false, by simp [histPG]⟩).2

open Arca.Model.SafeCex in
example : (∀ x, IsStepNode PG x → Settled (run PG fns0 id histPG).1.dag x) :=
  (all_steps_completed_nothing_waits_for_a_step PG fns0 id ordId_ok ordId_nodup PG_wf2 histPG histPG_legal
    histPG_reports (fun step stage hd => by
      obtain ⟨rfl, _⟩ := PG_declares hd
      exact ⟨"t", none, false, by simp [histPG]⟩)).2.1

-- the stage the step did not go through is a node of the graph and is unresolvable (not waiting) after the completion
open Arca.Model.SafeCex in
example : (run PG fns0 id histPG).1.dag.statusOf "steps.a.s" = some St.unres := by decide +kernel
open Arca.Model.SafeCex in
example : (run PG fns0 id histPG).1.dag.statusOf "steps.a.t" = some St.resolved := by decide +kernel
-- before the completion it was waiting
open Arca.Model.SafeCex in
example : (run PG fns0 id [.start .null]).1.dag.statusOf "steps.a.s" = some St.waiting := by decide +kernel

/-! an executable illustration of the promptness the repair buys (one of the F11 shapes): the only output of the workflow
needs `$.steps.a.crashed.error`; step `a` SUCCEEDS.  At the completion callback of `a` the loop marks the `crashed` stage
and its output impossible, the output node fails, and "no more outputs" is reported and the run cancelled in that very
reaction — no other step (`b` never ends here) and no deadlock-detector retry is needed. -/

def demoF : Prepared :=
  { dag := { nodes := [⟨"input", .waiting, [], []⟩,
                       ⟨"steps.a.outputs", .waiting, [("input", .and)], []⟩,
                       ⟨"steps.a.outputs.success", .waiting, [("steps.a.outputs", .and)], []⟩,
                       ⟨"steps.a.crashed", .waiting, [("input", .and)], []⟩,
                       ⟨"steps.a.crashed.error", .waiting, [("steps.a.crashed", .and)], []⟩,
                       ⟨"steps.b.outputs", .waiting, [("input", .and)], []⟩,
                       ⟨"outputs.failed", .waiting, [("steps.a.crashed.error", .and)], []⟩],
             edges := [("input", "steps.a.outputs", .and), ("steps.a.outputs", "steps.a.outputs.success", .and),
                       ("input", "steps.a.crashed", .and), ("steps.a.crashed", "steps.a.crashed.error", .and),
                       ("input", "steps.b.outputs", .and), ("steps.a.crashed.error", "outputs.failed", .and)],
             ready := [] }
    items := [("input", { kind := .input }),
              ("steps.a.outputs", { kind := .stage, step := "a", stage := "outputs" }),
              ("steps.a.outputs.success", { kind := .stageOutput, step := "a", stage := "outputs", output := "success" }),
              ("steps.a.crashed", { kind := .stage, step := "a", stage := "crashed" }),
              ("steps.a.crashed.error", { kind := .stageOutput, step := "a", stage := "crashed", output := "error" }),
              ("steps.b.outputs", { kind := .stage, step := "b", stage := "outputs" }),
              ("outputs.failed", { kind := .output, output := "failed",
                                   data := some (.expr (.dot (.dot (.dot (.dot .root "steps") "a") "crashed") "error")) })]
    stages := [("a", [("outputs", ["success"]), ("crashed", ["error"])]), ("b", [("outputs", [])])]
    errCap := Arca.Gen.errCap }

def demoFHist : List Event := [.start .null, .stepComplete "a" "outputs" (some ("success", .map [])) true]


/-- `demoF_prompt`: in the reaction to the completion of `a` alone -/
example : hasAct Action.isNoMoreOutputs (run demoF (fun fn _ => .error (.unknownFn fn)) id demoFHist).2 = true := by
  decide +kernel
example : (run demoF (fun fn _ => .error (.unknownFn fn)) id demoFHist).1.cancelled = true := by decide +kernel
example : (run demoF (fun fn _ => .error (.unknownFn fn)) id demoFHist).1.dag.statusOf "steps.a.crashed.error"
    = some St.unres := by decide +kernel
example : (run demoF (fun fn _ => .error (.unknownFn fn)) id demoFHist).1.dag.statusOf "outputs.failed"
    = some St.unres := by decide +kernel
-- the unrelated step `b` is still waiting: the run did not have to wait for it
example : (run demoF (fun fn _ => .error (.unknownFn fn)) id demoFHist).1.dag.statusOf "steps.b.outputs"
    = some St.waiting := by decide +kernel
-- without the completion (a mere stage change: the behaviour before the repair) nothing is reported
example : hasAct Action.isNoMoreOutputs (run demoF (fun fn _ => .error (.unknownFn fn)) id
    [.start .null, .stageChange "a" (some "outputs") (some ("success", .map [])) true]).2 = false := by decide +kernel

end Arca.Props.C01
