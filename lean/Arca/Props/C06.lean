/-
C06 — cancelling a run stops it in bounded time and reaches every running plugin.

Logical-time theorems over `Arca.Model.Cancel` for any number of steps and any closure timeouts, tied to the source by
the regenerated constants (grace period expression, default closure timeout) and by ordering facts on the regenerated
skeletons of `Execute`, `runStage` and `ForceClose`.  Real-time behaviour is measured on cancelled runs of the real
engine against this bound (+ tolerance): partial, see DESIGN.md C06.
-/
import Arca.Model.Cancel
import Arca.Model.SkelUtil
import Arca.Gen.Consts
import Arca.Gen.Skel
import Arca.Props.C06Foreach

namespace Arca.Props.C06
open Arca.Model.Cancel Arca.Model.Skel

theorem foldl_add_le (l : List Nat) (a b : Nat) (h : a ≤ b) : l.foldl (· + ·) a ≤ l.foldl (· + ·) b := by
  induction l generalizing a b with
  | nil => simpa using h
  | cons x xs ih => simp only [List.foldl_cons]; exact ih _ _ (by omega)

theorem closeTime_le (s : StepT) : closeTime s ≤ s.closureMs := by
  unfold closeTime
  split
  · omega
  · split
    · omega
    · split <;> omega

theorem terminateTime_le (steps : List StepT) :
    terminateTime steps ≤ (steps.map (·.closureMs)).foldl (· + ·) 0 := by
  unfold terminateTime
  suffices h : ∀ (a b : Nat), a ≤ b →
      (steps.map closeTime).foldl (· + ·) a ≤ (steps.map (·.closureMs)).foldl (· + ·) b from h 0 0 (Nat.le_refl 0)
  induction steps with
  | nil => intro a b h; simpa using h
  | cons s ss ih =>
    intro a b h
    simp only [List.map_cons, List.foldl_cons]
    exact ih _ _ (by have := closeTime_le s; omega)

/-- `cancel_bound`: the run returns within the grace period plus the sum of the steps' closure timeouts -/
theorem waitTime_le (graceMs : Nat) (resultAfter : Option Nat) : waitTime graceMs resultAfter ≤ graceMs := by
  unfold waitTime
  split <;> omega

theorem cancel_bound (graceMs : Nat) (resultAfter : Option Nat) (steps : List StepT) :
    returnTime graceMs resultAfter steps ≤ graceMs + (steps.map (·.closureMs)).foldl (· + ·) 0 := by
  unfold returnTime
  have h1 := terminateTime_le steps
  have h2 := waitTime_le graceMs resultAfter
  exact Nat.max_le.mpr ⟨by omega, by omega⟩

/-- `cancel_reaches_running`: every executing plugin is signalled or closed at once -/
theorem cancel_reaches_running (s : StepT) : reached s = true := by
  unfold reached closeTime
  cases s.executing <;> cases s.hasHandler <;> simp

/-- a plugin that honours the signal is not waited for longer than it needs -/
theorem responsive_plugin_fast (s : StepT) (t : Nat) (h : s.respondsIn = some t) : closeTime s ≤ t := by
  unfold closeTime
  split
  · omega
  · split
    · omega
    · simp [h]; omega

/-! ties to the source (regenerated on every run) -/

/-- the grace period and the default closure timeout the bound is computed with -/
theorem constants_as_modelled : Arca.Gen.graceExpr = "5 * time.Second" ∧ Arca.Gen.defaultClosureTimeoutMs = 5000 := by
  decide

/-- `Execute`: on ctx.Done the steps are terminated (`terminateAllSteps` in a goroutine) and `Execute` waits for it
    (`defer wg.Wait()`) -/
theorem execute_waits_for_termination :
    has (isTok "call:l.terminateAllSteps()") Arca.Gen.Skel.workflow_workflow_executableWorkflow_Execute = true ∧
    adjacent (isTok "defer{") (isTok "call:wg.Wait()") Arca.Gen.Skel.workflow_workflow_executableWorkflow_Execute = true := by
  decide

/-- `runStage`: on ctx.Done a step with the handler gets the signal (`cancelStep`), one without is force-closed; the wait
    for the result is bounded by a timer -/
theorem runStage_signals_or_closes :
    has (isTok "call:r.cancelStep()") Arca.Gen.Skel.step_plugin_provider_runningStep_runStage = true ∧
    has (isTok "call:r.forceCloseInternal()") Arca.Gen.Skel.step_plugin_provider_runningStep_runStage = true ∧
    has (isTok "comm(<-time.After(time.Duration(forceCloseTimeoutMS) * time.Millisecond)):")
      Arca.Gen.Skel.step_plugin_provider_runningStep_runStage = true := by
  decide

example : returnTime 5000 none [⟨true, true, 100, none⟩, ⟨true, false, 200, none⟩] = 5000 := by decide
example : returnTime 50 (some 10) [⟨true, true, 100, none⟩, ⟨true, true, 200, some 30⟩] = 130 := by decide

end Arca.Props.C06
