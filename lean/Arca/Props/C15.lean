/-
C15 — optional, one-of and or-disabled inputs mean what their tags say.

The meaning of the tags is the behaviour of `resolveIn` (the model of resolveExpressions / resolveOneOfExpression /
resolveOptionalExpression) on a graph satisfying the graph invariant:
* an optional field is present exactly when its dependency group is recorded as resolved in the consumer's node, and then
  carries the value of its expression; absent members are left out of the enclosing map;
* for a wait-optional (completion dependency) the group is settled — resolved or unresolvable — whenever the consumer is
  evaluated, so "present iff the source was produced";
* a one-of value is the data of the alternative whose option node was resolved first, plus the discriminator naming it
  (`!ordisabled` is parsed into a one-of with the options `enabled` / `disabled`, see workflow/yaml.go, pinned);
* whatever is recorded as a resolved dependency is a resolved node: its source was really produced.
A `!soft-optional` never delays its consumer because its dependency type is `opt`, which `ready_sound` / `pushStarting`
ignore (not a hard dependency): stated as `soft_optional_not_hard`.
-/
import Arca.Proofs.LoopSafe

namespace Arca.Props.C15
open Arca.Model

theorem optional_meaning (fns : Fns) (g : Graph String) (data : Val) (w : Bool) (grp par : String) (e : Expr)
    (p : Node String) (hp : g.find? par = some p) :
    resolveIn fns g data (.optional w grp par e) =
      (if p.res.any (fun q => q.1 = grp) then
        (match evalExpr fns data e with
         | .ok v => .ok v
         | .error x => .error (.eval x))
       else .ok Val.null) :=
  resolveIn_optional fns g data w grp par e p hp

theorem absent_members_left_out (fns : Fns) (g : Graph String) (data : Val) (kvs : List (String × InVal))
    (out : List (String × Val)) (h : resolveKvs fns g data kvs = .ok out) :
    ∀ k v, (k, v) ∈ out → v ≠ Val.null ∧ ∃ x, (k, x) ∈ kvs ∧ resolveIn fns g data x = .ok v :=
  resolveKvs_member fns g data kvs out h

theorem oneof_meaning (fns : Fns) (g : Graph String) (data : Val) (disc node : String) (opts : List (String × InVal))
    (v : Val) (h : resolveIn fns g data (.oneof disc node opts) = .ok v) :
    ∃ n dep optId x kvs, g.find? node = some n ∧ (dep, Dep.or) ∈ n.res ∧ optId = stripPrefix (node ++ ".") dep ∧
      (optId, x) ∈ opts ∧ resolveIn fns g data x = .ok (.map kvs) ∧ v = .map (insertKv disc (.str optId) kvs) :=
  resolveIn_oneof fns g data disc node opts v h

theorem recorded_source_was_produced (g : Graph String) (h : g.Inv) (n : Node String) (hn : n ∈ g.nodes)
    (q : String × Dep) (hq : q ∈ n.res) : statusIs g q.1 St.resolved :=
  recorded_dependency_resolved g h n hn q hq

theorem wait_optional_settled_when_evaluated (P : Prepared) (fns : Fns) (ord : Order) (hord : OrdOK ord) (s : LoopState)
    (e : Event) (hP : P.WF) (h : LoopDagInv P s) (step stage : String) (v : Val)
    (hp : Action.provide step stage v ∈ (react P fns ord s e).2) :
    ∃ id, (∃ it, lookup id P.items = some it ∧ it.kind = Kind.stage ∧ it.step = step ∧ it.stage = stage) ∧
      ∀ ed ∈ P.dag.edges, ed.2.1 = id → ed.2.2 = Dep.cand →
        statusIs (react P fns ord s e).1.dag ed.1 St.resolved ∨ statusIs (react P fns ord s e).1.dag ed.1 St.unres :=
  wait_optional_settled P fns ord hord s e hP h step stage v hp

/-- after fix 5cc5347: an optional ITEM of a list is handled like an optional field of a map — an absent one is left out, the
    other items keep their order -/
theorem absent_optional_item_left_out (fns : Fns) (g : Graph String) (data : Val) (w : Bool) (grp par : String) (e : Expr)
    (xs : List InVal) (p : Node String) (hp : g.find? par = some p) (habs : p.res.any (fun q => q.1 = grp) = false) :
    resolveList fns g data (.optional w grp par e :: xs) = resolveList fns g data xs := by
  have h := optional_meaning fns g data w grp par e p hp
  rw [habs] at h
  simp only [Bool.false_eq_true, if_false] at h
  rw [resolveList, h]
  cases resolveList fns g data xs <;> rfl

/-- a present optional item carries the value of its expression, in its position -/
theorem present_optional_item_kept (fns : Fns) (g : Graph String) (data : Val) (w : Bool) (grp par : String) (e : Expr)
    (xs : List InVal) (vs : List Val) (v : Val) (p : Node String) (hp : g.find? par = some p)
    (hpres : p.res.any (fun q => q.1 = grp) = true) (hv : evalExpr fns data e = .ok v) (hnn : v ≠ Val.null)
    (hxs : resolveList fns g data xs = .ok vs) :
    resolveList fns g data (.optional w grp par e :: xs) = .ok (v :: vs) := by
  have h := optional_meaning fns g data w grp par e p hp
  rw [hpres] at h
  simp only [if_true, hv] at h
  rw [resolveList, h, hxs]
  cases v <;> first | rfl | exact absurd rfl hnn

/-- no item that is an absent optional survives as `null`: a `null` in the result of a list comes from a non-optional item -/
theorem list_result_null_only_from_non_optional (fns : Fns) (g : Graph String) (data : Val) :
    ∀ (xs : List InVal) (vs : List Val), resolveList fns g data xs = .ok vs → Val.null ∈ vs →
      ∃ x ∈ xs, resolveIn fns g data x = .ok Val.null ∧ ∀ w grp par e, x ≠ .optional w grp par e := by
  intro xs
  induction xs with
  | nil => intro vs h hm; rw [resolveList] at h; cases h; cases hm
  | cons x xs ih =>
    intro vs h hm
    rw [resolveList] at h
    cases hx : resolveIn fns g data x with
    | error e => rw [hx] at h; cases h
    | ok v =>
      rw [hx] at h
      cases hr : resolveList fns g data xs with
      | error e => rw [hr] at h; cases h
      | ok vs' =>
        rw [hr] at h
        simp only at h
        split at h
        · have hv : vs = vs' := by injection h with h; exact h.symm
          rw [hv] at hm
          obtain ⟨y, hy, hy2⟩ := ih vs' hr hm
          exact ⟨y, List.mem_cons_of_mem _ hy, hy2⟩
        · rename_i hne
          have hv : vs = v :: vs' := by injection h with h; exact h.symm
          rw [hv] at hm
          rcases List.mem_cons.mp hm with hm | hm
          · subst hm
            refine ⟨x, List.mem_cons_self, hx, ?_⟩
            intro w grp par e hxe
            exact hne w grp par e hxe rfl
          · obtain ⟨y, hy, hy2⟩ := ih vs' hr hm
            exact ⟨y, List.mem_cons_of_mem _ hy, hy2⟩

/-- a soft-optional dependency (`opt`) and an obviated one are not hard: they never keep a node from becoming ready -/
theorem soft_optional_not_hard : Dep.opt.hard = false ∧ Dep.obv.hard = false ∧ Dep.cand.hard = true ∧ Dep.and.hard = true := by
  decide

end Arca.Props.C15
