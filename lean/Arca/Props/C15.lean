/-
C15 — optional, one-of and or-disabled inputs mean what their tags say.

The meaning of the tags is the behaviour of `resolveIn` (the model of resolveExpressions / resolveOneOfExpression /
resolveOptionalExpression) on a graph satisfying the graph invariant:
* an optional field is present exactly when its dependency group is recorded as resolved in the consumer's node, and then
  carries the value of its expression; absent members are left out of the enclosing map;
* for a wait-optional (completion dependency) the group is settled — resolved or unresolvable — whenever the consumer is
  evaluated, so "present iff the source was produced";
* a one-of value is the data of the alternative whose option node was resolved first, plus the discriminator naming it
  (`!ordisabled` is parsed into a one-of with the options `enabled` / `disabled`, see workflow/yaml.go, pinned);
* whatever is recorded as a resolved dependency is a resolved node: its source was really produced.
A `!soft-optional` never delays its consumer because its dependency type is `opt`, which `ready_sound` / `pushStarting`
ignore (not a hard dependency): stated as `soft_optional_not_hard`.
-/
import Arca.Proofs.LoopSafe

namespace Arca.Props.C15
open Arca.Model

theorem optional_meaning (fns : Fns) (g : Graph String) (data : Val) (w : Bool) (grp par : String) (e : Expr)
    (p : Node String) (hp : g.find? par = some p) :
    resolveIn fns g data (.optional w grp par e) =
      (if p.res.any (fun q => q.1 = grp) then
        (match evalExpr fns data e with
         | .ok v => .ok v
         | .error x => .error (.eval x))
       else .ok Val.null) :=
  resolveIn_optional fns g data w grp par e p hp

theorem absent_members_left_out (fns : Fns) (g : Graph String) (data : Val) (kvs : List (String × InVal))
    (out : List (String × Val)) (h : resolveKvs fns g data kvs = .ok out) :
    ∀ k v, (k, v) ∈ out → v ≠ Val.null ∧ ∃ x, (k, x) ∈ kvs ∧ resolveIn fns g data x = .ok v :=
  resolveKvs_member fns g data kvs out h

theorem oneof_meaning (fns : Fns) (g : Graph String) (data : Val) (disc node : String) (opts : List (String × InVal))
    (v : Val) (h : resolveIn fns g data (.oneof disc node opts) = .ok v) :
    ∃ n dep optId x kvs, g.find? node = some n ∧ (dep, Dep.or) ∈ n.res ∧ optId = stripPrefix (node ++ ".") dep ∧
      (optId, x) ∈ opts ∧ resolveIn fns g data x = .ok (.map kvs) ∧ v = .map (insertKv disc (.str optId) kvs) :=
  resolveIn_oneof fns g data disc node opts v h

theorem recorded_source_was_produced (g : Graph String) (h : g.Inv) (n : Node String) (hn : n ∈ g.nodes)
    (q : String × Dep) (hq : q ∈ n.res) : statusIs g q.1 St.resolved :=
  recorded_dependency_resolved g h n hn q hq

theorem wait_optional_settled_when_evaluated (P : Prepared) (fns : Fns) (ord : Order) (hord : OrdOK ord) (s : LoopState)
    (e : Event) (hP : P.WF) (h : LoopDagInv P s) (step stage : String) (v : Val)
    (hp : Action.provide step stage v ∈ (react P fns ord s e).2) :
    ∃ id, (∃ it, lookup id P.items = some it ∧ it.kind = Kind.stage ∧ it.step = step ∧ it.stage = stage) ∧
      ∀ ed ∈ P.dag.edges, ed.2.1 = id → ed.2.2 = Dep.cand →
        statusIs (react P fns ord s e).1.dag ed.1 St.resolved ∨ statusIs (react P fns ord s e).1.dag ed.1 St.unres :=
  wait_optional_settled P fns ord hord s e hP h step stage v hp

/-- a soft-optional dependency (`opt`) and an obviated one are not hard: they never keep a node from becoming ready -/
theorem soft_optional_not_hard : Dep.opt.hard = false ∧ Dep.obv.hard = false ∧ Dep.cand.hard = true ∧ Dep.and.hard = true := by
  decide

end Arca.Props.C15
