/-
C03 — the run result is the one the workflow's declarative meaning prescribes (run-loop part).

The output a run returns is the value of the (single) `output` action (C01); here: that action is emitted only for a
workflow-output node all of whose required dependencies are resolved and whose completion dependencies are settled, with
data equal to the output's expressions evaluated over the data model.  The converse ("if exactly one output is producible
it is the one returned") is validated on generated runs against the declarative oracle of lib/monitors.py and is subject
to the known finding F11 (stages that can no longer happen are not always declared impossible).
-/
import Arca.Proofs.LoopDag
import Arca.Proofs.LoopInv

namespace Arca.Props.C03
open Arca.Model

/-- `result_sound`: a produced output has all its required dependencies produced and carries its expressions' value -/
theorem result_sound (P : Prepared) (fns : Fns) (ord : Order) (hord : OrdOK ord) (s : LoopState) (e : Event)
    (hP : P.WF) (h : LoopDagInv P s) (oid : String) (v : Val)
    (hp : Action.output oid v ∈ (react P fns ord s e).2) :
    ∃ id it d, lookup id P.items = some it ∧ it.kind = Kind.output ∧ it.output = oid ∧ it.data = some d ∧
      (∃ g, resolveIn fns g (react P fns ord s e).1.data d = .ok v) ∧
      (∀ ed ∈ P.dag.edges, ed.2.1 = id → ed.2.2 = Dep.and → statusIs (react P fns ord s e).1.dag ed.1 St.resolved) ∧
      (∀ ed ∈ P.dag.edges, ed.2.1 = id → ed.2.2 = Dep.cand →
          statusIs (react P fns ord s e).1.dag ed.1 St.resolved ∨ statusIs (react P fns ord s e).1.dag ed.1 St.unres) :=
  output_deps_settled P fns ord hord s e hP h oid v hp

/-- the returned result is exactly the value of the only output action of the history -/
theorem result_is_the_output (P : Prepared) (fns : Fns) (ord : Order) (h : List Event) :
    countP Action.isOutput (run P fns ord h).2 ≤ 1 ∧
    ∀ id v, Action.output id v ∈ (run P fns ord h).2 → (run P fns ord h).1.result = some (id, v) :=
  ⟨run_at_most_one_output P fns ord h, run_result P fns ord h⟩

/-- `no_output_error`: when the last waiting output node fails, "no more outputs" is reported in that very reaction
    (and only once per run, C01) -/
theorem no_output_reported_when_last_output_fails (P : Prepared) (fns : Fns) (ord : Order) (s : LoopState) (e : Event) :
    (∀ x ∈ (react P fns ord s e).1.waitingOutputs, x ∈ s.waitingOutputs) ∧
    countP Action.isNoMoreOutputs (react P fns ord s e).2 ≤ 1 ∧
    (countP Action.isNoMoreOutputs (react P fns ord s e).2 = 1 →
        s.waitingOutputs ≠ [] ∧ (react P fns ord s e).1.waitingOutputs = []) :=
  react_noMoreOutputs P fns ord s e

end Arca.Props.C03
