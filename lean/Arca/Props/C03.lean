/-
C03 — the run result is the one the workflow's declarative meaning prescribes (run-loop part).

The output a run returns is the value of the (single) `output` action (C01); here: that action is emitted only for a
workflow-output node all of whose required dependencies are resolved and whose completion dependencies are settled, with
data equal to the output's expressions evaluated over the data model.  The converse — COMPLETENESS — is proved too
(`Arca/Proofs/LoopComplete.lean`): once every step has completed and no evaluation failed, a producible output node
means that an output was returned, and if it is the only producible one the result is its output id with the value of
its own data expressions (`producible_output_is_returned`); if every output node is unresolvable, "no more outputs" was
reported exactly once and nothing was returned (`no_producible_output_gives_error`, `nothing_producible_gives_error`).
The hypotheses are decided by the driver on every real prepared workflow and history (`Arca/Model/LoopCheck.lean`,
soundness in `Arca/Proofs/LoopCheckSound.lean`) and each one is backed by a counterexample theorem
(`completeness_hypotheses_needed`, `Arca.Props.C01.quiescent_hypotheses_needed`).  The same statements are validated on
generated runs of the real engine against the declarative oracle of lib/monitors.py.
-/
import Arca.Proofs.LoopDag
import Arca.Proofs.LoopInv
import Arca.Proofs.LoopComplete
import Arca.Props.C01
import Arca.Proofs.LoopCompleteCex

namespace Arca.Props.C03
open Arca.Model

/-- `result_sound`: a produced output has all its required dependencies produced and carries its expressions' value -/
theorem result_sound (P : Prepared) (fns : Fns) (ord : Order) (hord : OrdOK ord) (s : LoopState) (e : Event)
    (hP : P.WF) (h : LoopDagInv P s) (oid : String) (v : Val)
    (hp : Action.output oid v ∈ (react P fns ord s e).2) :
    ∃ id it d, lookup id P.items = some it ∧ it.kind = Kind.output ∧ it.output = oid ∧ it.data = some d ∧
      (∃ g, resolveIn fns g (react P fns ord s e).1.data d = .ok v) ∧
      (∀ ed ∈ P.dag.edges, ed.2.1 = id → ed.2.2 = Dep.and → statusIs (react P fns ord s e).1.dag ed.1 St.resolved) ∧
      (∀ ed ∈ P.dag.edges, ed.2.1 = id → ed.2.2 = Dep.cand →
          statusIs (react P fns ord s e).1.dag ed.1 St.resolved ∨ statusIs (react P fns ord s e).1.dag ed.1 St.unres) :=
  output_deps_settled P fns ord hord s e hP h oid v hp

/-- the returned result is exactly the value of the only output action of the history -/
theorem result_is_the_output (P : Prepared) (fns : Fns) (ord : Order) (h : List Event) :
    countP Action.isOutput (run P fns ord h).2 ≤ 1 ∧
    ∀ id v, Action.output id v ∈ (run P fns ord h).2 → (run P fns ord h).1.result = some (id, v) :=
  ⟨run_at_most_one_output P fns ord h, run_result P fns ord h⟩

/-- `no_output_error`: when the last waiting output node fails, "no more outputs" is reported in that very reaction
    (and only once per run, C01) -/
theorem no_output_reported_when_last_output_fails (P : Prepared) (fns : Fns) (ord : Order) (s : LoopState) (e : Event) :
    (∀ x ∈ (react P fns ord s e).1.waitingOutputs, x ∈ s.waitingOutputs) ∧
    countP Action.isNoMoreOutputs (react P fns ord s e).2 ≤ 1 ∧
    (countP Action.isNoMoreOutputs (react P fns ord s e).2 = 1 →
        s.waitingOutputs ≠ [] ∧ (react P fns ord s e).1.waitingOutputs = []) :=
  react_noMoreOutputs P fns ord s e

/-! ### completeness: what is producible is returned, and if nothing is producible an error is -/

/--
`producible_output_is_returned`.  Legal history starting with `start`, every step completed, no evaluation failure
reported.  If the workflow-output node `o` is producible in the final graph (its required dependencies are resolved, and
one of its alternatives if it has any: `Producible`, the condition `result_sound` guarantees of a returned output), then
an output WAS returned.  If `o` is the only producible output node, the returned result is `o`'s: its output id, and the
value `v` of `o`'s own data expressions (`resolveIn … d = .ok v`), carried by the `output` action of the history (to
which `result_sound` applies).
-/
theorem producible_output_is_returned (P : Prepared) (fns : Fns) (ord : Order) (hord : OrdOK ord) (hnd : OrdNodup ord)
    (hall : OrdAll ord) (hP : P.WF3) (input : Val) (rest : List Event)
    (hl : LegalHistory P fns ord (LoopState.init P) (.start input :: rest))
    (hr : ∀ e ∈ rest, EventReports P e)
    (hcomp : ∀ step stage, P.declares step stage → ∃ prev out busy, Event.stepComplete step prev out busy ∈ rest)
    (hnef : ∀ a ∈ (run P fns ord (.start input :: rest)).2, a.isEvalFailed = false)
    (o : String) (it : Item) (hit : lookup o P.items = some it) (hk : it.kind = Kind.output)
    (hprod : Producible P (run P fns ord (.start input :: rest)).1.dag o) :
    (run P fns ord (.start input :: rest)).1.result.isSome = true ∧
    ((∀ x, isOutputNode P x → Producible P (run P fns ord (.start input :: rest)).1.dag x → x = o) →
      ∃ v d, it.data = some d ∧ (run P fns ord (.start input :: rest)).1.result = some (it.output, v) ∧
        Action.output it.output v ∈ (run P fns ord (.start input :: rest)).2 ∧
        ∃ g data, resolveIn fns g data d = .ok v) := by
  have hW := hP.wf2.wf
  rcases run_core hP fns ord hord hnd hall input rest hl with ⟨a, ha, hef⟩ | ⟨hc, hrd⟩
  · rw [hnef a ha] at hef; cases hef
  have hr' : ∀ e ∈ Event.start input :: rest, EventReports P e := by
    intro e he
    rcases List.mem_cons.1 he with rfl | he
    · trivial
    · exact hr e he
  have hstep := (Arca.Props.C01.all_steps_completed_nothing_waits_for_a_step P fns ord hord hnd hP.wf2 _ hl hr' (by
    intro step stage hdd
    obtain ⟨prev, out, busy, hm⟩ := hcomp step stage hdd
    exact ⟨prev, out, busy, List.mem_cons_of_mem _ hm⟩)).2.1
  have hset := all_nodes_settled hP hc hrd hstep
  have hoo : isOutputNode P o := ⟨it, hit, hk⟩
  obtain ⟨n, hn⟩ := output_node_find hP hc.gr.dinv hoo
  have hres : statusIs (run P fns ord (.start input :: rest)).1.dag o St.resolved := by
    cases hs : n.status with
    | waiting => exact absurd ⟨n, hn, hs⟩ (hset o)
    | resolved => exact ⟨n, hn, hs⟩
    | unres => exact absurd (hc.gr.uj o n hn (fun h => h hoo) hs) (hprod.not_just hc.gr.dinv)
  have hsome : (run P fns ord (.start input :: rest)).1.result.isSome = true := by
    rw [← hc.out.done_res]
    exact hc.out.resolved_done o hoo hres
  refine ⟨hsome, ?_⟩
  intro huniq
  cases hresult : (run P fns ord (.start input :: rest)).1.result with
  | none => rw [hresult] at hsome; cases hsome
  | some p =>
    obtain ⟨oid, v⟩ := p
    obtain ⟨x, itx, d, h1, h2, h3, h4, h5, h6⟩ := hc.out.res_node oid v hresult
    obtain ⟨_, hsafe⟩ := runFrom_safe hP.wf2 fns ord hord hnd (.start input :: rest) _ (init_dag_inv P hW)
      (init_safe_inv P hW) rfl hl
    have hxo := huniq x ⟨itx, h1, h2⟩ (producible_of_resolved hc.gr.dinv hsafe.closed h5)
    subst hxo
    rw [hit] at h1; cases h1
    subst h3
    exact ⟨v, d, h4, rfl, run_result_has_action P fns ord _ _ v hresult, h6⟩

/--
`no_producible_output_gives_error`.  Legal history starting with `start`, no evaluation failure reported.  If every
workflow-output node is unresolvable in the final graph, then "all outputs marked as unresolvable" was reported exactly
once and no output was returned.
-/
theorem no_producible_output_gives_error (P : Prepared) (fns : Fns) (ord : Order) (hord : OrdOK ord)
    (hnd : OrdNodup ord) (hall : OrdAll ord) (hP : P.WF3) (input : Val) (rest : List Event)
    (hl : LegalHistory P fns ord (LoopState.init P) (.start input :: rest))
    (hnef : ∀ a ∈ (run P fns ord (.start input :: rest)).2, a.isEvalFailed = false)
    (hnone : ∀ x, isOutputNode P x → statusIs (run P fns ord (.start input :: rest)).1.dag x St.unres) :
    countP Action.isNoMoreOutputs (run P fns ord (.start input :: rest)).2 = 1 ∧
    (run P fns ord (.start input :: rest)).1.result = none ∧
    (∀ id v, Action.output id v ∉ (run P fns ord (.start input :: rest)).2) := by
  rcases run_core hP fns ord hord hnd hall input rest hl with ⟨a, ha, hef⟩ | ⟨hc, hrd⟩
  · rw [hnef a ha] at hef; cases hef
  obtain ⟨h1, ⟨a, ha, hnmo⟩⟩ := core_all_failed hP hc hrd hnone
  refine ⟨?_, h1, ?_⟩
  · have hle := run_noMoreOutputs_once P fns ord (.start input :: rest)
    have hpos : 0 < countP Action.isNoMoreOutputs (run P fns ord (.start input :: rest)).2 := by
      unfold countP
      exact List.length_pos_of_mem (List.mem_filter.2 ⟨ha, hnmo⟩)
    omega
  · intro id v hm
    have := run_result P fns ord _ id v hm
    rw [h1] at this; cases this

/--
The same with the hypothesis on the dependencies instead of on the statuses: every step completed and NO declared output
is producible in the final graph.
-/
theorem nothing_producible_gives_error (P : Prepared) (fns : Fns) (ord : Order) (hord : OrdOK ord)
    (hnd : OrdNodup ord) (hall : OrdAll ord) (hP : P.WF3) (input : Val) (rest : List Event)
    (hl : LegalHistory P fns ord (LoopState.init P) (.start input :: rest))
    (hr : ∀ e ∈ rest, EventReports P e)
    (hcomp : ∀ step stage, P.declares step stage → ∃ prev out busy, Event.stepComplete step prev out busy ∈ rest)
    (hnef : ∀ a ∈ (run P fns ord (.start input :: rest)).2, a.isEvalFailed = false)
    (hnone : ∀ x, isOutputNode P x → ¬ Producible P (run P fns ord (.start input :: rest)).1.dag x) :
    countP Action.isNoMoreOutputs (run P fns ord (.start input :: rest)).2 = 1 ∧
    (run P fns ord (.start input :: rest)).1.result = none ∧
    (∀ id v, Action.output id v ∉ (run P fns ord (.start input :: rest)).2) := by
  have hW := hP.wf2.wf
  refine no_producible_output_gives_error P fns ord hord hnd hall hP input rest hl hnef ?_
  rcases run_core hP fns ord hord hnd hall input rest hl with ⟨a, ha, hef⟩ | ⟨hc, hrd⟩
  · rw [hnef a ha] at hef; cases hef
  have hr' : ∀ e ∈ Event.start input :: rest, EventReports P e := by
    intro e he
    rcases List.mem_cons.1 he with rfl | he
    · trivial
    · exact hr e he
  have hstep := (Arca.Props.C01.all_steps_completed_nothing_waits_for_a_step P fns ord hord hnd hP.wf2 _ hl hr' (by
    intro step stage hdd
    obtain ⟨prev, out, busy, hm⟩ := hcomp step stage hdd
    exact ⟨prev, out, busy, List.mem_cons_of_mem _ hm⟩)).2.1
  have hset := all_nodes_settled hP hc hrd hstep
  obtain ⟨_, hsafe⟩ := runFrom_safe hP.wf2 fns ord hord hnd (.start input :: rest) _ (init_dag_inv P hW)
    (init_safe_inv P hW) rfl hl
  intro x hx
  obtain ⟨n, hn⟩ := output_node_find hP hc.gr.dinv hx
  cases hs : n.status with
  | waiting => exact absurd ⟨n, hn, hs⟩ (hset x)
  | resolved => exact absurd (producible_of_resolved hc.gr.dinv hsafe.closed ⟨n, hn, hs⟩) (hnone x hx)
  | unres => exact ⟨n, hn, hs⟩

/-! #### the completeness theorems in the form the driver checks, the need for every hypothesis, non-vacuity -/

open Arca.Model.CompleteCex in
theorem producible_stmt : ProducibleStmt StartComplete NoEF := by
  rintro P fns ord h ⟨h1, h2, h3⟩ hW hl hr ⟨input, rest, rfl, hc⟩ hE o ⟨it, hit, hk⟩ hp
  exact (producible_output_is_returned P fns ord h1 h2 h3 hW.sound input rest hl
    (fun e he => hr e (List.mem_cons_of_mem _ he)) hc hE o it hit hk hp).1

open Arca.Model.CompleteCex in
theorem no_output_stmt : NoOutputStmt NoEF := by
  rintro P fns ord h ⟨h1, h2, h3⟩ hW hl ⟨input, rest, rfl⟩ hE hn
  obtain ⟨a, b, _⟩ := no_producible_output_gives_error P fns ord h1 h2 h3 hW.sound input rest hl hE hn
  exact ⟨a, b⟩

/-- the invariant behind the three theorems: after every reaction of a legal history the ready set is empty, unless an
evaluation failed -/
theorem ready_empty_stmt : Arca.Model.CompleteCex.ReadyEmptyStmt Prepared.WF3OK := by
  rintro P fns ord h ⟨h1, h2, h3⟩ hW hl ⟨input, rest, rfl⟩
  rcases run_core hW.sound fns ord h1 h2 h3 input rest hl with h4 | ⟨_, h4⟩
  · exact Or.inl h4
  · exact Or.inr h4

/-- the hypotheses "no evaluation failure" and "every step completed" of the C03 theorems are needed, and the clause
`output_sink` is needed for the invariant (`Arca/Proofs/LoopCompleteCex.lean`) -/
theorem completeness_hypotheses_needed :
    ¬ Arca.Model.CompleteCex.ProducibleStmt Arca.Model.CompleteCex.StartComplete (fun _ _ _ _ => True) ∧
    ¬ Arca.Model.CompleteCex.ProducibleStmt Arca.Model.CompleteCex.StartsWithStart Arca.Model.CompleteCex.NoEF ∧
    ¬ Arca.Model.CompleteCex.NoOutputStmt (fun _ _ _ _ => True) ∧
    ¬ Arca.Model.CompleteCex.ReadyEmptyStmt (Arca.Model.CompleteCex.AllBut "output_sink") :=
  open Arca.Model.CompleteCex in
  ⟨producible_needs_no_eval_failure, producible_needs_completion, no_output_needs_no_eval_failure,
   ready_empty_needs_output_sink⟩

/-! non-vacuity (`CompleteCex.PX`, see C01): with the history in which step `a` ends through its stage `s` the output
node is producible and it is the only output node, so `producible_output_is_returned` yields the result; with the
history in which `a` ends through `t` the output node is unresolvable and `no_producible_output_gives_error` applies. -/

open Arca.Model.CompleteCex in
theorem PX_good_noEF : ∀ a ∈ (run PX fns0 id (.start .null :: HXgood)).2, a.isEvalFailed = false := by decide +kernel
open Arca.Model.CompleteCex in
theorem PX_bad_noEF : ∀ a ∈ (run PX fns0 id (.start .null :: HXbad)).2, a.isEvalFailed = false := by decide +kernel

open Arca.Model.CompleteCex in
theorem PX_output_nodes (x : String) (hx : isOutputNode PX x) : x = "outputs.o" := by
  obtain ⟨it, hit, hk⟩ := hx
  have hm := lookup_mem_items hit
  simp only [PX, List.mem_cons, Prod.mk.injEq, List.not_mem_nil, or_false] at hm
  rcases hm with ⟨_, rfl⟩ | ⟨_, rfl⟩ | ⟨_, rfl⟩ | ⟨_, rfl⟩ | ⟨h, _⟩
  · cases hk
  · cases hk
  · cases hk
  · cases hk
  · exact h

open Arca.Model.CompleteCex in
example : ∃ v d, (outIt "o").data = some d ∧ (run PX fns0 id (.start .null :: HXgood)).1.result = some ("o", v) ∧
    Action.output "o" v ∈ (run PX fns0 id (.start .null :: HXgood)).2 ∧ ∃ g data, resolveIn fns0 g data d = .ok v :=
  (producible_output_is_returned PX fns0 id ordPerm_id.1 ordPerm_id.2.1 ordPerm_id.2.2 PX_wf.sound .null HXgood
    PX_good_legal (all_eventReportsB (by decide +kernel)) (allCompleteB_sound (by decide +kernel)) PX_good_noEF
    "outputs.o" (outIt "o") (by simp [PX, lookup]) rfl
    (producible_iff_b _ _ _ (by decide +kernel) (by decide +kernel))).2
    (fun x hx _ => PX_output_nodes x hx)

open Arca.Model.CompleteCex in
example : countP Action.isNoMoreOutputs (run PX fns0 id (.start .null :: HXbad)).2 = 1 ∧
    (run PX fns0 id (.start .null :: HXbad)).1.result = none ∧
    (∀ oid v, Action.output oid v ∉ (run PX fns0 id (.start .null :: HXbad)).2) :=
  no_producible_output_gives_error PX fns0 id ordPerm_id.1 ordPerm_id.2.1 ordPerm_id.2.2 PX_wf.sound .null HXbad
    PX_bad_legal PX_bad_noEF (by
      intro x hx
      rw [PX_output_nodes x hx]
      exact stIs_iff.1 (by decide +kernel))

end Arca.Props.C03
