/-
C02 — steps start only after their dependencies, with the data those produced.

Every statement quantifies over every well-formed prepared workflow `P` (`P.WF`: what `Prepare` hands to `Execute`;
validated on every real prepared DAG by the driver and proved for the Prepare model in C10), every function table, every
processing order of the ready sets that only permutes them (`OrdOK`), every reachable loop state and every event.
-/
import Arca.Proofs.LoopDag
import Arca.Proofs.LoopDagCex
import Arca.Proofs.DgraphExt

namespace Arca.Props.C02
open Arca.Model

/-- the graph on which a run works keeps the prepared workflow's nodes and edges and satisfies the graph invariant -/
theorem run_keeps_graph_invariant (P : Prepared) (fns : Fns) (ord : Order) (hP : P.WF) (h : List Event) :
    LoopDagInv P (run P fns ord h).1 :=
  run_dag_inv P fns ord hP h

/--
`provide_after_deps`: when a reaction hands a stage its input, every required (`and`) dependency of that stage's node
is resolved and every completion dependency is settled in the state after the reaction, and the value handed over is
the item's data resolved over the reaction's data model.
-/
theorem provide_after_deps (P : Prepared) (fns : Fns) (ord : Order) (hord : OrdOK ord) (s : LoopState) (e : Event)
    (hP : P.WF) (h : LoopDagInv P s) (step stage : String) (v : Val)
    (hp : Action.provide step stage v ∈ (react P fns ord s e).2) :
    ∃ id it d, lookup id P.items = some it ∧ it.kind = Kind.stage ∧ it.step = step ∧ it.stage = stage ∧
      it.data = some d ∧
      (∃ g, resolveIn fns g (react P fns ord s e).1.data d = .ok v) ∧
      (∀ ed ∈ P.dag.edges, ed.2.1 = id → ed.2.2 = Dep.and → statusIs (react P fns ord s e).1.dag ed.1 St.resolved) ∧
      (∀ ed ∈ P.dag.edges, ed.2.1 = id → ed.2.2 = Dep.cand →
          statusIs (react P fns ord s e).1.dag ed.1 St.resolved ∨ statusIs (react P fns ord s e).1.dag ed.1 St.unres) :=
  provide_deps_settled P fns ord hord s e hP h step stage v hp

/--
`provide_sees_produced_values`: ... and every stage output such a required dependency stands for is present in the data
model the expressions are evaluated over: no step observes a missing value.  (`EventOK`: callbacks name declared stages
and declared outputs — what C12 establishes of the providers — and `start` comes first.)
-/
theorem provide_sees_produced_values (P : Prepared) (fns : Fns) (ord : Order) (hord : OrdOK ord) (s : LoopState) (e : Event)
    (hP : P.WF) (h : LoopDagInv P s) (hd : DataInv P s) (hm : DataMap s) (hev : EventOK P s e)
    (step stage : String) (v : Val)
    (hp : Action.provide step stage v ∈ (react P fns ord s e).2)
    (halive : (react P fns ord s e).1.dead = false) :
    ∃ id it, lookup id P.items = some it ∧ it.kind = Kind.stage ∧ it.step = step ∧ it.stage = stage ∧
      ∀ ed ∈ P.dag.edges, ed.2.1 = id → ed.2.2 = Dep.and →
        ∀ src, lookup ed.1 P.items = some src → src.kind = Kind.stageOutput →
          (lookupData (react P fns ord s e).1.data src.step src.stage src.output).isSome = true :=
  provide_refs_available P fns ord hord s e hP h hd hm hev step stage v hp halive

/-- the data invariant holds along every history that starts with `start` and continues with declared callbacks -/
theorem data_model_holds_resolved_outputs (P : Prepared) (fns : Fns) (ord : Order) (hP : P.WF) (input : Val)
    (hist : List Event) (hh : ∀ e ∈ hist, EventDeclared P e ∧ ∀ input, e ≠ Event.start input) :
    DataInv P (run P fns ord (Event.start input :: hist)).1 :=
  run_data_inv P fns ord hP input hist hh

/-- non-vacuity: the well-formedness hypothesis is satisfiable by a workflow with stage outputs and a group node -/
example : Cex.P2.WF := Cex.P2_wf

/--
The tie of the graph model to the real library.  `arcadrv dgraph` compares go.arcalot.io/dgraph with the handle layer
`HGraph` (Model/DgraphExt.lean: the core model plus `Remove` / `Disconnect*`, which the engine never calls).  On every graph that
is built with the core operations only - in any order, with any arguments, successful or not - that layer computes exactly
`Graph.addNode` / `Graph.connect` / `Graph.resolve` (the other operations are the core functions themselves), so a run of the
differential check without disagreement is a check of the model the theorems above are about.
-/
theorem dgraph_check_covers_core_model (g : Graph String) (hb : g.Built) :
    (∀ id, (HGraph.ofGraph g).addNode id = liftG (g.addNode id)) ∧
    (∀ src dst d, (HGraph.ofGraph g).connect src dst d = liftG (g.connect src dst d)) ∧
    (∀ id st, (HGraph.ofGraph g).resolve id st = liftG (g.resolve id st)) :=
  HGraph.agrees_on_built hb

/-- non-vacuity: a graph with a resolved node, an obviated entry and a ready dependent is `Built` -/
example : ∃ g : Graph Nat, g.Built ∧ g.statusOf 0 = some St.resolved ∧ g.ready = [2] ∧
    (g.find? 2).map (·.out) = some [(1, Dep.obv)] ∧ (g.find? 2).map (·.res) = some [(0, Dep.or)] := by
  have h0 : (Graph.empty : Graph Nat).Built := .empty
  have h1 := h0.addNode (id := 0) (g' := ⟨[⟨0, .waiting, [], []⟩], [], []⟩) rfl
  have h2 := h1.addNode (id := 1) (g' := ⟨[⟨0, .waiting, [], []⟩, ⟨1, .waiting, [], []⟩], [], []⟩) rfl
  have h3 := h2.addNode (id := 2)
    (g' := ⟨[⟨0, .waiting, [], []⟩, ⟨1, .waiting, [], []⟩, ⟨2, .waiting, [], []⟩], [], []⟩) rfl
  have h4 := h3.connect (src := 0) (dst := 2) (d := .or)
    (g' := ⟨[⟨0, .waiting, [], []⟩, ⟨1, .waiting, [], []⟩, ⟨2, .waiting, [(0, .or)], []⟩], [(0, 2, .or)], []⟩) rfl
  have h5 := h4.connect (src := 1) (dst := 2) (d := .or)
    (g' := ⟨[⟨0, .waiting, [], []⟩, ⟨1, .waiting, [], []⟩, ⟨2, .waiting, [(0, .or), (1, .or)], []⟩],
      [(0, 2, .or), (1, 2, .or)], []⟩) rfl
  have h6 := h5.resolve (id := 0) (st := .resolved)
    (g' := ⟨[⟨0, .resolved, [], []⟩, ⟨1, .waiting, [], []⟩, ⟨2, .waiting, [(1, .obv)], [(0, .or)]⟩],
      [(0, 2, .or), (1, 2, .or)], [2]⟩) rfl
  exact ⟨_, h6, by decide⟩

end Arca.Props.C02
