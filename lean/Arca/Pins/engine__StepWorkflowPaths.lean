import Arca.Gen.Skel
import Arca.Expected.Skel

/-- the control skeleton of this function is the one the hand-written model was reconciled with -/
theorem Arca.Pins.engine__StepWorkflowPaths : Arca.Gen.Skel.engine__StepWorkflowPaths = Arca.Expected.Skel.engine__StepWorkflowPaths := rfl
