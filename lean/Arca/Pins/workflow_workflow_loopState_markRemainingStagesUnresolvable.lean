import Arca.Gen.Skel
import Arca.Expected.Skel

/-- the control skeleton of this function is the one the hand-written model was reconciled with -/
theorem Arca.Pins.workflow_workflow_loopState_markRemainingStagesUnresolvable : Arca.Gen.Skel.workflow_workflow_loopState_markRemainingStagesUnresolvable = Arca.Expected.Skel.workflow_workflow_loopState_markRemainingStagesUnresolvable := rfl
