import Arca.Gen.Skel
import Arca.Expected.Skel

/-- the control skeleton of this function is the one the hand-written model was reconciled with -/
theorem Arca.Pins.engine_engineWorkflow_Run : Arca.Gen.Skel.engine_engineWorkflow_Run = Arca.Expected.Skel.engine_engineWorkflow_Run := rfl
