import Arca.Gen.Skel
import Arca.Expected.Skel

/-- the control skeleton of this function is the one the hand-written model was reconciled with -/
theorem Arca.Pins.infer_infer__Scope : Arca.Gen.Skel.infer_infer__Scope = Arca.Expected.Skel.infer_infer__Scope := rfl
