import Arca.Gen.Skel
import Arca.Expected.Skel

/-- the control skeleton of this function is the one the hand-written model was reconciled with -/
theorem Arca.Pins.engine_workflowEngine_Parse : Arca.Gen.Skel.engine_workflowEngine_Parse = Arca.Expected.Skel.engine_workflowEngine_Parse := rfl
