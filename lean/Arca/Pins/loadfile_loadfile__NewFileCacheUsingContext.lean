import Arca.Gen.Skel
import Arca.Expected.Skel

/-- the control skeleton of this function is the one the hand-written model was reconciled with -/
theorem Arca.Pins.loadfile_loadfile__NewFileCacheUsingContext : Arca.Gen.Skel.loadfile_loadfile__NewFileCacheUsingContext = Arca.Expected.Skel.loadfile_loadfile__NewFileCacheUsingContext := rfl
