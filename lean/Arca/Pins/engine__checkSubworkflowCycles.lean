import Arca.Gen.Skel
import Arca.Expected.Skel

/-- the control skeleton of this function is the one the hand-written model was reconciled with -/
theorem Arca.Pins.engine__checkSubworkflowCycles : Arca.Gen.Skel.engine__checkSubworkflowCycles = Arca.Expected.Skel.engine__checkSubworkflowCycles := rfl
