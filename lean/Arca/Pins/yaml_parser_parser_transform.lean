import Arca.Gen.Skel
import Arca.Expected.Skel

/-- the control skeleton of this function is the one the hand-written model was reconciled with -/
theorem Arca.Pins.yaml_parser_parser_transform : Arca.Gen.Skel.yaml_parser_parser_transform = Arca.Expected.Skel.yaml_parser_parser_transform := rfl
