import Arca.Gen.Skel
import Arca.Expected.Skel

/-- the control skeleton of this function is the one the hand-written model was reconciled with -/
theorem Arca.Pins.step_plugin_provider_runningStep_currentStageInputAvailable : Arca.Gen.Skel.step_plugin_provider_runningStep_currentStageInputAvailable = Arca.Expected.Skel.step_plugin_provider_runningStep_currentStageInputAvailable := rfl
