import Arca.Gen.Skel
import Arca.Expected.Skel

/-- the control skeleton of this function is the one the hand-written model was reconciled with -/
theorem Arca.Pins.yaml_parser_node_MapKey : Arca.Gen.Skel.yaml_parser_node_MapKey = Arca.Expected.Skel.yaml_parser_node_MapKey := rfl
