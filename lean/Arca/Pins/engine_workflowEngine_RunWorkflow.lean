import Arca.Gen.Skel
import Arca.Expected.Skel

/-- the control skeleton of this function is the one the hand-written model was reconciled with -/
theorem Arca.Pins.engine_workflowEngine_RunWorkflow : Arca.Gen.Skel.engine_workflowEngine_RunWorkflow = Arca.Expected.Skel.engine_workflowEngine_RunWorkflow := rfl
