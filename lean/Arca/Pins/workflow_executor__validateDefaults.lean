import Arca.Gen.Skel
import Arca.Expected.Skel

/-- the control skeleton of this function is the one the hand-written model was reconciled with -/
theorem Arca.Pins.workflow_executor__validateDefaults : Arca.Gen.Skel.workflow_executor__validateDefaults = Arca.Expected.Skel.workflow_executor__validateDefaults := rfl
