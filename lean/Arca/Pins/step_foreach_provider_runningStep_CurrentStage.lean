import Arca.Gen.Skel
import Arca.Expected.Skel

/-- the control skeleton of this function is the one the hand-written model was reconciled with -/
theorem Arca.Pins.step_foreach_provider_runningStep_CurrentStage : Arca.Gen.Skel.step_foreach_provider_runningStep_CurrentStage = Arca.Expected.Skel.step_foreach_provider_runningStep_CurrentStage := rfl
