import Arca.Gen.Skel
import Arca.Expected.Skel

/-- the control skeleton of this function is the one the hand-written model was reconciled with -/
theorem Arca.Pins.workflow_yaml__compileExpression : Arca.Gen.Skel.workflow_yaml__compileExpression = Arca.Expected.Skel.workflow_yaml__compileExpression := rfl
