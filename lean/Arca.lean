-- Root of the `Arca` library: model, specs and property theorems for arcaflow-engine.
import Arca.Model.Val
import Arca.Model.Dgraph
import Arca.Model.RunLoop
import Arca.Gen.Lifecycle
import Arca.Gen.Consts
import Arca.Gen.Skel
import Arca.Gen.Unknown
import Arca.Expected.Skel
